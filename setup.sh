#!/bin/sh
# Offline, idempotent: make sure the test interpreter has hypothesis; atheris (C10 thorough) into .deps
HERE="$(cd "$(dirname "$0")" && pwd)"
PY=/venv/bin/python
WH=/opt/veriftools/wheels
$PY -c "import hypothesis" 2>/dev/null || /venv/bin/pip install -q --no-index --find-links "$WH" hypothesis || exit 1
mkdir -p "$HERE/.deps"
PYTHONPATH="$HERE/.deps" $PY -c "import atheris" 2>/dev/null || \
  /venv/bin/pip install -q --no-index --find-links "$WH" --target "$HERE/.deps" atheris \
  || echo "setup: atheris not installable; C10 thorough runs its Hypothesis part only"
$PY -c "import hypothesis, z3, pysmt, pysat, pandas; print('setup ok: hypothesis', hypothesis.__version__)"
