"""Known findings (committed file, never written at run time) and their predicates.

An observation is suppressed only when (a) its bucket matches the entry's bucket pattern
and (b) the entry's named predicate holds of the failing case.  Entries with status
"fixed" suppress nothing.
"""

import fnmatch
import json
import os

ROOT = os.path.dirname(os.path.dirname(os.path.abspath(__file__)))
_cache = None


def load():
    global _cache
    if _cache is None:
        p = os.path.join(ROOT, "known_findings.json")
        if os.path.exists(p):
            with open(p) as fd:
                _cache = json.load(fd)["findings"]
        else:
            _cache = []
    return _cache


def get(fid):
    for f in load():
        if f["id"] == fid:
            return f
    return None


def _texts_collide(case, o):
    from . import fm
    qs = (o.get("queries") if isinstance(o, dict) else None) or case.get("queries") or []
    texts = [fm.cond_text(fm.from_json(B), fm.from_json(A)) for _, B, A in qs]
    return len(texts) != len(set(texts))


def _base_has_key_zero(case, o):
    return any(k == 0 for k, _, _ in case.get("base", []))


def _keys_not_1_to_n(case, o):
    keys = [k for k, _, _ in case.get("base", [])]
    return sorted(keys) != list(range(1, len(keys) + 1))


def _always(case, o):
    return True


def _detail_flag(flag):
    def p(case, o):
        d = o.get("detail")
        return isinstance(d, dict) and bool(d.get(flag))
    return p


def _crev_fixed(case, o):
    idxs = {r[0] for r in case.get("revs", [])}
    ks = list(case.get("fix_minus") or {}) + list(case.get("fix_plus") or {})
    return any(int(k) in idxs for k in ks)


PREDICATES = {
    "crevision_fixed_values": _crev_fixed,
    "always": _always,
    "query_texts_collide": _texts_collide,
    "base_has_key_zero": _base_has_key_zero,
    "keys_not_1_to_n": _keys_not_1_to_n,
    "internal_name_clash": _detail_flag("internal_name_clash"),
    "dup_text_batch": _detail_flag("dup_text_batch"),
}


def match(pid, o, case):
    for f in load():
        if f.get("status") != "known" or f["property"] != pid:
            continue
        m = f["match"]
        if not fnmatch.fnmatchcase(o["bucket"], m["bucket"]):
            continue
        pred = PREDICATES[m.get("predicate", "always")]
        try:
            if pred(case, o):
                return f["id"]
        except Exception:
            continue
    return None
