"""Bridge from harness-side cases to the library under test.

The library is imported from $VERIF_REPO (default /repo) by path so that checks always
exercise the current working tree.
"""

import os
import sys
import traceback
import warnings

REPO = os.environ.get("VERIF_REPO", "/repo")
os.environ.setdefault("INFOCF_LOGLEVEL", "ERROR")
if REPO not in sys.path[:1]:
    sys.path.insert(0, REPO)
warnings.filterwarnings("ignore")

from . import fm  # noqa: E402

_loaded = {}


def lib():
    """lazy import of the library modules; returns a namespace dict"""
    if _loaded:
        return _loaded
    import inference
    assert os.path.realpath(os.path.dirname(os.path.dirname(inference.__file__))) == \
        os.path.realpath(REPO), f"library imported from {inference.__file__}, expected {REPO}"
    from pysmt.shortcuts import FALSE, TRUE, And, Not, Or, Symbol
    from pysmt.typing import BOOL

    from inference.belief_base import BeliefBase
    from inference.conditional import Conditional
    from inference.inference_manager import InferenceManager
    from inference.queries import Queries

    _loaded.update(
        dict(FALSE=FALSE, TRUE=TRUE, And=And, Not=Not, Or=Or, Symbol=Symbol, BOOL=BOOL,
             BeliefBase=BeliefBase, Conditional=Conditional,
             InferenceManager=InferenceManager, Queries=Queries))
    return _loaded


def to_pysmt(f):
    L = lib()
    t = f[0]
    if t == "v":
        return L["Symbol"](f[1], L["BOOL"])
    if t == "T":
        return L["TRUE"]()
    if t == "F":
        return L["FALSE"]()
    if t == "n":
        return L["Not"](to_pysmt(f[1]))
    if t == "a":
        return L["And"](to_pysmt(f[1]), to_pysmt(f[2]))
    if t == "o":
        return L["Or"](to_pysmt(f[1]), to_pysmt(f[2]))
    raise ValueError(f)


def mk_cond(B, A, text=None):
    L = lib()
    return L["Conditional"](to_pysmt(B), to_pysmt(A), text or fm.cond_text(B, A))


def mk_bb(atoms, base, name="kb"):
    """base: list of (key, B, A)"""
    L = lib()
    return L["BeliefBase"](list(atoms), {k: mk_cond(B, A) for k, B, A in base}, name)


def mk_queries(qs):
    L = lib()
    return L["Queries"]({k: mk_cond(B, A) for k, B, A in qs})


CFGS = {
    # name: (system, pmaxsat_solver)
    "p": ("p-entailment", "rc2"),
    "z": ("system-z", "rc2"),
    "w-rc2": ("system-w", "rc2"),
    "w-z3": ("system-w", "z3"),
    "lex-rc2": ("lex_inf", "rc2"),
    "lex-z3": ("lex_inf", "z3"),
    "c": ("c-inference", "rc2"),
}


def cfg_of(name):
    if name in CFGS:
        return CFGS[name]
    # e.g. "w-rc2-g4", "lex-rc2-m22", "c-rc2-cd"
    head, _, rest = name.partition("-")
    system = {"w": "system-w", "lex": "lex_inf", "c": "c-inference"}[head]
    return system, rest


def exc_symptom(e):
    """exception bucket: type + innermost frame inside the library"""
    tb = traceback.extract_tb(e.__traceback__)
    frame = None
    for fr in tb:
        if os.path.realpath(fr.filename).startswith(os.path.realpath(REPO) + os.sep):
            frame = fr
    where = f"{os.path.relpath(frame.filename, REPO)}:{frame.name}" if frame else "outside"
    return f"exc:{type(e).__name__}@{where}"


def exc_origin(e):
    """file of the frame that raised (to tell a failure inside a third-party SAT engine wrapper
    from one inside the library)"""
    tb = traceback.extract_tb(e.__traceback__)
    return tb[-1].filename if tb else ""


def infer(atoms, base, queries, cfg, weakly=False, **kw):
    """run one manager over the queries; returns list of (result, timed_out, pre_timed_out)
    rows or raises"""
    L = lib()
    system, pm = cfg_of(cfg)
    bb = mk_bb(atoms, base)
    q = mk_queries(queries)
    man = L["InferenceManager"](bb, system, pmaxsat_solver=pm, weakly=weakly)
    df = man.inference(q, **kw)
    return df_rows(df)


def df_rows(df):
    rows = []
    for i in range(len(df)):
        rows.append({
            "index": df.at[i, "index"],
            "query": df.at[i, "query"],
            "result": df.at[i, "result"],
            "inference_timed_out": df.at[i, "inference_timed_out"],
            "preprocessing_timed_out": df.at[i, "preprocessing_timed_out"],
        })
    return rows


def answers(atoms, base, queries, cfg, weakly=False, **kw):
    """-> ('ok', [bool...]) or ('exc', symptom, message)"""
    try:
        rows = infer(atoms, base, queries, cfg, weakly=weakly, **kw)
    except BaseException as e:  # noqa: BLE001 - classified, never swallowed silently
        if isinstance(e, (KeyboardInterrupt, SystemExit, MemoryError)):
            raise
        return ("exc", exc_symptom(e), f"{type(e).__name__}: {e}"[:300], exc_origin(e))
    return ("ok", [r["result"] for r in rows], rows)
