"""Reference reader for the documented .cl syntax (docs/CL_SYNTAX.md), written from the
documentation and sharing nothing with the ANTLR parser.

formula   :=  or
or        :=  and (';' and)*
and       :=  unary (',' unary)*
unary     :=  '!' unary | '(' formula ')' | ID        ('Top' / 'Bottom' are the constants)
ID        :=  letter (letter | digit | '_' | '-')*
comments  :=  // to end of line, /* ... */ ; blanks and tabs are insignificant.

file      :=  NL* 'signature' NL+ ID (',' ID)* NL
              NL* 'conditionals' NL+ ID NL* '{' NL* [cond (',' NL* cond)* NL*] '}' NL* EOF
cond      :=  '(' formula '|' formula ')'
"""

from . import fm


class Reject(Exception):
    pass


PUNCT = set("!,;()|{}")


def tokenize(s):
    toks = []
    i, n = 0, len(s)
    while i < n:
        ch = s[i]
        if ch in " \t":
            i += 1
        elif s.startswith("//", i):
            while i < n and s[i] not in "\r\n":
                i += 1
        elif s.startswith("/*", i):
            j = s.find("*/", i + 2)
            if j < 0:
                raise Reject("unterminated block comment")
            i = j + 2
        elif ch == "\r":
            i += 2 if s.startswith("\r\n", i) else 1
            toks.append(("NL", "\n"))
        elif ch == "\n":
            i += 1
            toks.append(("NL", "\n"))
        elif ch in PUNCT:
            toks.append((ch, ch))
            i += 1
        elif ch.isascii() and ch.isalpha():
            j = i + 1
            while j < n and s[j].isascii() and (s[j].isalnum() or s[j] in "_-"):
                j += 1
            toks.append(("ID", s[i:j]))
            i = j
        else:
            raise Reject(f"illegal character {ch!r}")
    toks.append(("EOF", ""))
    return toks


class P:
    def __init__(self, toks):
        self.t = toks
        self.i = 0

    def peek(self):
        return self.t[self.i][0]

    def take(self, kind):
        if self.t[self.i][0] != kind:
            raise Reject(f"expected {kind} got {self.t[self.i]}")
        v = self.t[self.i][1]
        self.i += 1
        return v

    def skip_nl(self, at_least=0):
        k = 0
        while self.peek() == "NL":
            self.i += 1
            k += 1
        if k < at_least:
            raise Reject("newline expected")

    def formula(self):
        left = self.conj()
        while self.peek() == ";":
            self.i += 1
            left = fm.Or(left, self.conj())
        return left

    def conj(self):
        left = self.unary()
        while self.peek() == ",":
            self.i += 1
            left = fm.And(left, self.unary())
        return left

    def unary(self):
        k = self.peek()
        if k == "!":
            self.i += 1
            return fm.Not(self.unary())
        if k == "(":
            self.i += 1
            f = self.formula()
            self.take(")")
            return f
        if k == "ID":
            name = self.take("ID")
            if name in ("signature", "conditionals"):
                raise Reject("keyword used as atom")
            if name == "Top":
                return fm.T
            if name == "Bottom":
                return fm.F
            return fm.V(name)
        raise Reject(f"unexpected {self.t[self.i]}")

    def cond(self):
        self.take("(")
        B = self.formula()
        self.take("|")
        A = self.formula()
        self.take(")")
        return (B, A)

    def cond_list(self):
        """cond (',' NL* cond)* NL*  -- inside a conditional ',' belongs to the formula, so
        a conditional ends at its closing parenthesis"""
        conds = [self.cond()]
        while self.peek() == ",":
            self.i += 1
            self.skip_nl()
            conds.append(self.cond())
        self.skip_nl()
        return conds


def parse_formula(s):
    p = P(tokenize(s))
    f = p.formula()
    p.take("EOF")
    return f


def parse_base(s):
    p = P(tokenize(s))
    p.skip_nl()
    if p.peek() != "ID" or p.t[p.i][1] != "signature":
        raise Reject("signature expected")
    p.i += 1
    p.skip_nl(1)
    sig = [p.take("ID")]
    while p.peek() == ",":
        p.i += 1
        sig.append(p.take("ID"))
    p.take("NL")
    p.skip_nl()
    if p.peek() != "ID" or p.t[p.i][1] != "conditionals":
        raise Reject("conditionals expected")
    p.i += 1
    p.skip_nl(1)
    name = p.take("ID")
    p.skip_nl()
    p.take("{")
    p.skip_nl()
    conds = []
    if p.peek() != "}":
        conds = p.cond_list()
    p.take("}")
    p.skip_nl()
    p.take("EOF")
    if len(set(sig)) != len(sig) or "Top" in sig or "Bottom" in sig:
        raise Reject("bad signature")
    return sig, name, conds


def parse_query_list(s):
    """bare list of conditionals as in a .clq file: cond (',' NL* cond)* with optional
    surrounding newlines"""
    p = P(tokenize(s))
    p.skip_nl()
    conds = p.cond_list()
    p.take("EOF")
    return conds
