"""Oracle-guided candidate streams for regions that uniform generation practically never
reaches.  Everything here is reference-side only (pure Python); the library is run only on
the candidate that is finally returned.

The 'world-set' family: a two-layer base whose upper layer holds several conditionals with
the same antecedent, one of them with a conjunctive consequent (its non-falsification CNF has
one clause per conjunct, so a MaxSAT solver that counts violated clauses sees a cost between 1
and k for falsifying it), and a query whose antecedent is a set of complete worlds.  In this
family the order in which a cost-driven enumeration meets falsification sets can differ from
set inclusion and from cardinality; the two features below name the cases in which that
matters.  The clause cost is *modelled* (number of false conjuncts), not read from the code.
"""

from . import fm, gen, ref


def worldset_candidate(rnd):
    n = rnd.randint(5, 6)
    atoms = gen.ATOMS[:n]
    a = atoms[0]
    rest = atoms[1:]
    rnd.shuffle(rest)
    k = rnd.choice([2, 3, 3])

    def lit(x):
        return fm.V(x) if rnd.random() < 0.75 else fm.Not(fm.V(x))

    top = [(fm.conj([lit(x) for x in rest[:k]]), fm.V(a))]
    for x in rest[k:k + rnd.randint(1, 2)]:
        top.append((lit(x), fm.V(a)))
    low = [(fm.Not(fm.V(a)), fm.T)]
    for x in rnd.sample(rest, rnd.randint(0, 2)):
        low.append((fm.Not(fm.V(x)) if rnd.random() < 0.7 else fm.V(x), fm.T))
    conds = top + low
    rnd.shuffle(conds)

    def cube():
        return fm.conj([fm.V(a)] + [fm.V(x) if rnd.random() < 0.5 else fm.Not(fm.V(x)) for x in atoms[1:]])

    A = fm.disj([cube() for _ in range(rnd.randint(3, 9))])
    B = fm.disj([lit(x) for x in rnd.sample(atoms[1:], rnd.randint(1, 3))])
    return atoms, conds, (B, A)


def _conjuncts(f):
    return _conjuncts(f[1]) + _conjuncts(f[2]) if f[0] == "a" else [f]


def clause_cost(cond, w, atoms):
    B, A = cond
    asg = {x: bool((w >> i) & 1) for i, x in enumerate(atoms)}
    return max(1, sum(1 for c in _conjuncts(B) if not fm.ev(c, asg)))


def _best_costs(M, sem, conds, atoms, side_mask):
    top = M.layers[-1]
    best = {}
    for w in fm.worlds_of(side_mask):
        S = frozenset(j for j in top if (sem.fal[j] >> w) & 1)
        c = sum(clause_cost(conds[j], w, atoms) for j in S)
        best[S] = min(best.get(S, 10**6), c)
    return best


def superset_before_subset(M, sem, conds, atoms, side_mask):
    """some falsification set is cheaper (in clauses) than one of its proper subsets"""
    best = _best_costs(M, sem, conds, atoms, side_mask)
    return any(S < S2 and best[S2] < best[S] for S in best for S2 in best)


def min_card_set_after_larger(M, sem, conds, atoms, side_mask):
    """enumerating by clause cost meets a larger set before some minimum-cardinality set"""
    best = _best_costs(M, sem, conds, atoms, side_mask)
    order = sorted(best.items(), key=lambda kv: (kv[1], len(kv[0])))
    found = []
    for S, c in order:
        if any(f <= S for f in found):
            continue
        if found and len(S) > len(found[0]):
            break
        found.append(S)
    mincard = min(len(S) for S in best)
    return any(len(S) == mincard and S not in found for S in best)


def worldset_search(seed, feature, max_candidates=20000, need_lex_tie=False):
    """-> case in the wanted stratum, or the last usable candidate marked searched='none'"""
    rnd = gen.rng(seed)
    fn = {"superset-before-subset": superset_before_subset,
          "min-card-set-after-larger": min_card_set_after_larger}[feature]
    last = None
    tried = 0
    for _ in range(max_candidates):
        atoms, conds, (B, A) = worldset_candidate(rnd)
        conds = gen.repair_strong(atoms, conds)
        sem = ref.Sem(atoms, conds)
        M = ref.Model(sem)
        if len(M.layers) < 2:
            continue
        a, v, f = sem.qmasks(B, A)
        if not (v and f):
            continue
        tried += 1
        last = (atoms, conds, (B, A))
        if need_lex_tie and M.lex_features(v, f).get("tie_depth", 0) < 1:
            continue
        if fn(M, sem, conds, atoms, v) or fn(M, sem, conds, atoms, f):
            other = gen.r_query(rnd, atoms)
            return gen.mk_case(atoms, conds, [(B, A), other], searched=feature, tried=tried)
    if last is None:
        return gen.mk_case(["a", "b"], [(fm.V("b"), fm.V("a"))], [(fm.V("b"), fm.V("a"))], searched="none", tried=tried)
    atoms, conds, q = last
    return gen.mk_case(atoms, conds, [q], searched="none", tried=tried)


def _three_layer_feature(M, v, f):
    """some verifying and some falsifying world agree on a NON-EMPTY falsification set in a
    layer that has at least two layers below it, and falsify incomparable non-empty sets in the
    next layer down"""
    if len(M.layers) < 3:
        return False
    pats = M._patterns()
    V = {pats[w] for w in fm.worlds_of(v)}
    F = {pats[w] for w in fm.worlds_of(f)}
    for p in V:
        for q in F:
            for lvl in range(len(M.layers) - 2):
                if p[:lvl + 1] == q[:lvl + 1] and p[lvl] and p[lvl + 1] and q[lvl + 1] \
                        and (p[lvl + 1] & ~q[lvl + 1]) and (q[lvl + 1] & ~p[lvl + 1]):
                    return True
    return False


def three_layer_search(seed, max_bases=1500):
    """bases with >= 3 layers and a query in the stratum above; conditionals are listed either
    'general rules first' or 'specific rules first' (the listing order is part of the case)"""
    rnd = gen.rng(seed)
    last = None
    tried = 0
    for _ in range(max_bases):
        n = rnd.randint(4, 6)
        atoms, conds = gen.r_literal_base(rnd, n, rnd.randint(6, 9), max_ant=2)
        conds = gen.repair_strong(atoms, conds)
        sem = ref.Sem(atoms, conds)
        M = ref.Model(sem)
        if len(M.layers) < 3:
            continue
        tried += 1
        for _ in range(8):
            A = gen.r_conj(rnd, atoms, rnd.randint(1, 3))
            if rnd.random() < 0.4:
                A = fm.And(A, fm.Not(gen.r_conj(rnd, atoms, 2)))
            B = gen.r_literal(rnd, atoms)
            a, v, f = sem.qmasks(B, A)
            if not (v and f):
                continue
            last = (atoms, conds, (B, A))
            if _three_layer_feature(M, v, f):
                mode = seed % 3
                order = list(range(len(conds)))
                if mode == 0:
                    order.sort(key=lambda j: -M.layer_of[j])      # specific rules first
                elif mode == 1:
                    order.sort(key=lambda j: M.layer_of[j])       # general rules first
                other = gen.r_query(rnd, atoms)
                return gen.mk_case(atoms, [conds[j] for j in order], [(B, A), other],
                                   searched="three-layer-tie", tried=tried)
    if last is None:
        return gen.mk_case(["a", "b"], [(fm.V("b"), fm.V("a"))], [(fm.V("b"), fm.V("a"))], searched="none", tried=tried)
    atoms, conds, q = last
    return gen.mk_case(atoms, conds, [q], searched="none", tried=tried)
