"""Runner: driver (shards, aggregation, confirmation, evidence) and worker.

Exit codes of the driver: 0 property held on everything explored, 1 violation(s) (each
with a `VIOLATION property=<id> replay=<path>` line), 2 harness error (never a VIOLATION).
"""

import argparse
import collections
import importlib
import json
import os
import subprocess
import sys
import tempfile
import time
import traceback

ROOT = os.path.dirname(os.path.dirname(os.path.abspath(__file__)))
PY = sys.executable
NSHARDS = int(os.environ.get("VERIF_SHARDS", "16"))


def prop_module(pid):
    return importlib.import_module(f"vlib.props.{pid.lower()}")


# --------------------------------------------------------------------------------------
# per-run accumulators
# --------------------------------------------------------------------------------------

class Ctx:
    def __init__(self, tier="quick", seed=1, record=True):
        self.tier = tier
        self.seed = seed
        self.record = record
        self.evaluations = 0
        self.cases = 0
        self.nontrivial = set()
        self.strata = collections.Counter()
        self.samples = []
        self.excluded_known = collections.Counter()
        self.extra = {}
        self.max_samples = 6

    def ev(self, n=1):
        self.evaluations += n

    def nt(self, key):
        """register a distinct non-trivial case (hashable / json-able key)"""
        if not isinstance(key, str):
            from . import gen
            key = gen.case_hash(key)
        self.nontrivial.add(key)

    def stratum(self, name, n=1):
        self.strata[name] += n

    def sample(self, obj):
        if len(self.samples) < self.max_samples:
            self.samples.append(obj)

    def dump(self):
        return {
            "evaluations": self.evaluations,
            "cases": self.cases,
            "nontrivial": sorted(self.nontrivial),
            "strata": dict(self.strata),
            "samples": self.samples,
            "excluded_known": dict(self.excluded_known),
            "extra": self.extra,
        }


def obs(bucket, detail=None, **kw):
    d = {"bucket": bucket, "detail": detail}
    d.update(kw)
    return d


# --------------------------------------------------------------------------------------
# observation filtering (known findings)
# --------------------------------------------------------------------------------------

def split_observations(pid, case, observations, ctx=None):
    """-> (unknown observations, [(finding_id, obs)])"""
    from . import findings
    unknown, known = [], []
    for o in observations:
        fid = findings.match(pid, o, case)
        if fid is None:
            unknown.append(o)
        else:
            known.append((fid, o))
            if ctx is not None:
                ctx.excluded_known[fid] += 1
    return unknown, known


def run_filtered(mod, case, ctx):
    observations = run_case_env(mod, case, ctx)
    return split_observations(mod.ID, case, observations, ctx)


def run_case_env(mod, case, ctx):
    """run one case; a case marked `_dbg` runs with DEBUG enabled for the library's loggers (an
    answer-neutral circumstance: the handlers still filter the output)"""
    if isinstance(case, dict) and case.get("_dbg"):
        import logging
        lg = logging.getLogger("inference")
        lg2 = logging.getLogger("parser")
        lg.setLevel(logging.DEBUG)
        lg2.setLevel(logging.DEBUG)
        try:
            if ctx is not None:
                ctx.stratum("circumstance:debug-logging")
            return mod.run_case(case, ctx) or []
        finally:
            lg.setLevel(logging.NOTSET)
            lg2.setLevel(logging.NOTSET)
    return mod.run_case(case, ctx) or []


# --------------------------------------------------------------------------------------
# minimisation
# --------------------------------------------------------------------------------------

def minimise(mod, case, bucket, max_steps=400, max_seconds=90):
    from . import gen
    shrink = getattr(mod, "shrink", gen.shrink_candidates)
    t0 = time.time()
    steps = 0
    improved = True
    last = None
    while improved:
        improved = False
        for cand in shrink(case):
            steps += 1
            if steps > max_steps or time.time() - t0 > max_seconds:
                return case, last
            try:
                unknown, _ = run_filtered(mod, cand, Ctx(record=False))
            except Exception:
                continue
            hit = [o for o in unknown if o["bucket"] == bucket]
            if hit:
                case = cand
                last = hit[0]
                improved = True
                break
    return case, last


# --------------------------------------------------------------------------------------
# worker
# --------------------------------------------------------------------------------------

def worker_main(args):
    import warnings
    warnings.filterwarnings("ignore")
    from . import gen
    mod = prop_module(args.prop)
    ctx = Ctx(args.tier, args.seed)
    candidates = {}  # bucket -> (size, case, obs, history)
    recent = collections.deque(maxlen=25)   # the cases this process ran before the current one
    t0 = time.time()
    budget = mod.budget(args.tier)
    soft = budget.get("soft_seconds", 600)
    state = {"inconclusive": False, "skipped": 0}
    os.environ["VERIF_SALT"] = str(args.seed * 1000 + args.shard)   # read by vlib/hard.py

    def handle(case):
        if time.time() - t0 > soft:
            state["inconclusive"] = True
            state["skipped"] += 1
            return
        ctx.cases += 1
        if isinstance(case, dict) and "_dbg" not in case and int(gen.case_hash(case), 16) % 12 == 0:
            case = dict(case, _dbg=True)      # every twelfth case (by hash) runs with DEBUG logging on
        with open(args.out + ".last", "w") as fd:  # survives a hard crash of this process
            json.dump(case, fd)
        unknown, _ = run_filtered(mod, case, ctx)
        for o in unknown:
            c = o.get("case") or case
            sz = gen.case_size(c)
            cur = candidates.get(o["bucket"])
            if cur is None or sz < cur[0]:
                candidates[o["bucket"]] = (sz, c, o, list(recent))
        recent.append(case)

    result = {"shard": args.shard, "mode": args.mode}
    if args.mode == "regress":
        result["regress"] = regress(mod, ctx, args.out)
    else:
        # deterministic extra cases (corpora, exhaustive sub-domains)
        if hasattr(mod, "extra_cases"):
            for case in mod.extra_cases(args.tier, args.shard, args.nshards, ctx):
                handle(case)
        # Hypothesis runs: the module's main strategy and, when it has one, its strategy of
        # oracle-guided inputs with a budget of its own (inside one_of, Hypothesis' example mutation
        # favours branches with long choice sequences, which starves integer-seeded searches)
        runs = [(mod.strategy(args.tier), budget["examples"], 0)]
        if hasattr(mod, "hard_strategy") and budget.get("hard_examples", 0) > 0:
            runs.append((mod.hard_strategy(args.tier), budget["hard_examples"], 500))
        if os.environ.get("VERIF_ONLY_HARD") == "1":      # development aid: the guided run alone
            runs = runs[1:]
        for strat, n, off in runs:
            per = max(1, (n + args.nshards - 1) // args.nshards)
            if n <= 0:
                continue
            from hypothesis import HealthCheck, Phase, given, settings
            from hypothesis import seed as hseed

            @hseed(args.seed * 1000 + args.shard + off)
            @settings(max_examples=per, phases=[Phase.generate], database=None, deadline=None,
                      derandomize=False, report_multiple_bugs=False,
                      suppress_health_check=[HealthCheck.too_slow, HealthCheck.data_too_large,
                                             HealthCheck.large_base_example])
            @given(strat)
            def t(case):
                handle(case)

            t()
    # minimise candidates (bounded)
    out_c = []
    for bucket, (sz, case, o, hist) in list(candidates.items())[:5]:
        small, o2 = minimise(mod, case, bucket, max_seconds=budget.get("shrink_seconds", 30))
        out_c.append({"bucket": bucket, "case": small, "detail": (o2 or o).get("detail"),
                      "orig_case": case, "orig_detail": o.get("detail"), "history": hist})
    result.update(ctx.dump())
    result["candidates"] = out_c
    result["n_candidate_buckets"] = len(candidates)
    result["inconclusive_budget"] = state["inconclusive"]
    result["skipped_after_budget"] = state["skipped"]
    result["wall_s"] = time.time() - t0
    with open(args.out, "w") as fd:
        json.dump(result, fd)
    return 0


def regress(mod, ctx, out=None):
    """replay committed regression inputs and known-finding reproductions"""
    d = os.path.join(ROOT, "regressions", mod.ID)
    res = []
    if not os.path.isdir(d):
        return res
    for name in sorted(os.listdir(d)):
        if not name.endswith(".json"):
            continue
        with open(os.path.join(d, name)) as fd:
            rec = json.load(fd)
        case = rec["case"]
        if out:
            with open(out + ".last", "w") as fd:   # survives a crash or a hang of this process
                json.dump(case, fd)
        sub = Ctx(record=False)
        observations = run_case_env(mod, case, sub)
        unknown, known = split_observations(mod.ID, case, observations, ctx)
        res.append({
            "file": f"regressions/{mod.ID}/{name}",
            "unknown": unknown,
            "known": [[fid, o["bucket"]] for fid, o in known],
        })
    return res


# --------------------------------------------------------------------------------------
# replay
# --------------------------------------------------------------------------------------

def replay_main(args):
    mod = prop_module(args.prop)
    with open(args.replay) as fd:
        rec = json.load(fd)
    case = rec["case"]
    want = rec.get("bucket")
    ctx = Ctx(record=False)
    for h in rec.get("history") or []:
        # the failure depends on what this interpreter ran before: replay that history first
        try:
            run_case_env(mod, h, Ctx(record=False))
        except Exception:
            pass
    observations = run_case_env(mod, case, ctx)
    unknown, known = split_observations(mod.ID, case, observations)
    print(f"replay {args.replay}: {len(observations)} observation(s)")
    if hasattr(mod, "describe"):
        try:
            print(mod.describe(case))
        except Exception:
            traceback.print_exc()
    for fid, o in known:
        print(f"  known[{fid}] {o['bucket']}: {json.dumps(o.get('detail'), default=str)[:400]}")
    for o in unknown:
        print(f"  VIOLATING {o['bucket']}: {json.dumps(o.get('detail'), default=str)[:600]}")
    if args.any_bucket or want is None:
        bad = bool(unknown)
    else:
        bad = any(o["bucket"] == want for o in unknown)
    if bad:
        print(f"VIOLATION property={mod.ID} replay={args.replay}")
        return 1
    return 0


# --------------------------------------------------------------------------------------
# driver
# --------------------------------------------------------------------------------------

def env_for_children():
    env = dict(os.environ)
    env["PYTHONHASHSEED"] = "0"
    env["PYTHONDONTWRITEBYTECODE"] = "1"
    env.setdefault("INFOCF_LOGLEVEL", "ERROR")
    env["PYTHONPATH"] = ROOT + os.pathsep + os.path.join(ROOT, ".deps") + (
        os.pathsep + env["PYTHONPATH"] if env.get("PYTHONPATH") else "")
    env["PYTHONWARNINGS"] = "ignore"
    return env


def spawn(argv, env, log):
    return subprocess.Popen([PY, "-m", "vlib.core"] + argv, cwd=ROOT, env=env,
                            stdout=log, stderr=subprocess.STDOUT)


def driver_main(args):
    pid = args.prop.upper()
    mod = prop_module(pid)
    tier = args.tier
    seed = args.seed
    t0 = time.time()
    env = env_for_children()
    if getattr(mod, "NEEDS_ENGINES", False):
        from . import engines
        env["VERIF_ENGINES"] = ",".join(engines.usable())
    tmp = tempfile.mkdtemp(prefix=f"verif-{pid}-")
    nshards = getattr(mod, "SHARDS", {}).get(tier, NSHARDS) if isinstance(
        getattr(mod, "SHARDS", None), dict) else NSHARDS
    procs = []
    # regression / known-finding replays
    logs = []
    jobs = [("regress", 0)] + [("gen", k) for k in range(nshards)]
    for mode, k in jobs:
        out = os.path.join(tmp, f"{mode}-{k}.json")
        logp = os.path.join(tmp, f"{mode}-{k}.log")
        log = open(logp, "w")
        p = spawn(["worker", pid, "--tier", tier, "--seed", str(seed), "--shard", str(k),
                   "--nshards", str(nshards), "--mode", mode, "--out", out], env, log)
        procs.append((mode, k, p, out, logp))
        logs.append(log)
    harness_errors = []
    results = []
    crashed = []
    budget = mod.budget(tier)
    hard = budget.get("hard_seconds", budget.get("soft_seconds", 600) * 2 + 300)
    t_spawn = time.time()
    for mode, k, p, out, logp in procs:
        try:
            rc = p.wait(timeout=max(1.0, hard - (time.time() - t_spawn)))
        except subprocess.TimeoutExpired:
            # far beyond the soft budget: the worker is stuck inside one call (the soft guard only
            # acts between cases). Its current case becomes a 'process-hang' candidate.
            p.kill()
            p.wait()
            if os.path.exists(out + ".last"):
                with open(out + ".last") as fd:
                    crashed.append({"bucket": "process-hang", "case": json.load(fd),
                                    "detail": {"worker": f"{mode}-{k}", "killed_after_s": round(time.time() - t_spawn)}})
            else:
                harness_errors.append(f"worker {mode}-{k} exceeded {hard} s without a current case")
            continue
        if rc < 0 and os.path.exists(out + ".last"):
            # the interpreter died (signal): the last case becomes a crash candidate
            with open(out + ".last") as fd:
                crashed.append({"bucket": f"process-crash:signal{-rc}", "case": json.load(fd),
                                "detail": {"worker": f"{mode}-{k}", "signal": -rc}})
            continue
        if rc != 0 or not os.path.exists(out):
            with open(logp) as fd:
                tail = fd.read()[-3000:]
            harness_errors.append(f"worker {mode}-{k} rc={rc}\n{tail}")
            continue
        with open(out) as fd:
            results.append(json.load(fd))
    for log in logs:
        log.close()
    if harness_errors:
        for h in harness_errors[:3]:
            print("HARNESS-ERROR:", h)
        write_evidence(mod, tier, seed, t0, results, [], [], harness_errors=harness_errors)
        return 2

    # aggregate
    from . import findings, gen
    cand = {}
    for c in crashed:
        cand.setdefault(c["bucket"], c)
    for r in results:
        for c in r.get("candidates", []):
            cur = cand.get(c["bucket"])
            if cur is None or gen.case_size(c["case"]) < gen.case_size(cur["case"]):
                cand[c["bucket"]] = c
    # regression results
    known_lines = {}
    reg_unknown = []
    reg_files = 0
    for r in results:
        for item in r.get("regress", []) or []:
            reg_files += 1
            for fid, bucket in item["known"]:
                known_lines[fid] = findings.get(fid)
            for o in item["unknown"]:
                reg_unknown.append((item["file"], o))

    violations = []
    unreproduced = []
    rdir = os.environ.get("VERIF_REPLAY_DIR") or "replays"   # relative to ROOT unless absolute
    os.makedirs(os.path.join(ROOT, rdir, pid), exist_ok=True)
    # regression files that fail are violations with the committed file as replay
    seen_files = set()
    for f, o in reg_unknown:
        if f in seen_files:
            continue
        seen_files.add(f)
        violations.append({"bucket": o["bucket"], "replay": f, "detail": o.get("detail")})
    for bucket, c in sorted(cand.items()):
        # confirm in a fresh interpreter: the minimised case first; if that does not reproduce on
        # its own, the case as generated; if that does not either, the case preceded by the cases
        # its worker had run before it (a genuine dependence on process history)
        attempts = [("minimised", c["case"], c.get("detail"), None)]
        if c.get("orig_case") is not None and c["orig_case"] != c["case"]:
            attempts.append(("as-generated", c["orig_case"], c.get("orig_detail"), None))
        if c.get("history"):
            attempts.append(("with-history", c.get("orig_case") or c["case"], c.get("orig_detail") or c.get("detail"),
                             c["history"]))
        confirmed = False
        last = None
        for kind, cs, det, hist in attempts:
            name = f"{safe(bucket)}-{gen.case_hash([cs, bool(hist)])}.json"
            path = os.path.join(rdir, pid, name)
            rec = {"property": pid, "bucket": bucket, "case": cs, "detail": det, "seed": seed,
                   "tier": tier, "form": kind}
            if hist:
                rec["history"] = hist
            with open(os.path.join(ROOT, path), "w") as fd:
                json.dump(rec, fd, indent=1, default=str)
            try:
                cp = subprocess.run([PY, "-m", "vlib.core", "replay", pid, "--replay", path],
                                    cwd=ROOT, env=env, capture_output=True, text=True,
                                    timeout=300 if bucket.startswith("process-") else 1800)
            except subprocess.TimeoutExpired:
                # a worker that hung or was killed (e.g. out of memory after looping): not finishing
                # alone within 300 s confirms it
                cp = subprocess.CompletedProcess([], 124 if bucket.startswith("process-") else 2, "", "replay timed out")
            last = (path, cp)
            if cp.returncode == 1 or (cp.returncode < 0 and bucket.startswith("process-crash")) or \
                    (cp.returncode == 124 and bucket.startswith("process-")):
                violations.append({"bucket": bucket, "replay": path, "detail": det, "form": kind})
                confirmed = True
                break
        if not confirmed:
            path, cp = last
            unreproduced.append({"bucket": bucket, "replay": path, "rc": cp.returncode,
                                 "out": cp.stdout[-800:] + cp.stderr[-800:]})

    # required strata
    strata = collections.Counter()
    for r in results:
        strata.update(r.get("strata", {}))
    missing = [s for s in getattr(mod, "required_strata", lambda t: [])(tier) if strata[s] == 0]

    for fid, f in sorted(known_lines.items()):
        print(f"KNOWN-FINDING: property={pid} {fid}: {f['what']}")
    for v in violations:
        print(f"VIOLATION property={pid} replay={v['replay']}")
        print(f"  bucket={v['bucket']} detail={json.dumps(v.get('detail'), default=str)[:500]}")
    write_evidence(mod, tier, seed, t0, results, violations, unreproduced,
                   known=sorted(known_lines), reg_files=reg_files, missing=missing)
    try:
        import shutil
        shutil.rmtree(tmp)
    except Exception:
        pass
    if violations:
        return 1
    if unreproduced:
        print("HARNESS-ERROR: failure(s) did not reproduce in a fresh interpreter:",
              json.dumps(unreproduced, default=str)[:1500])
        return 2
    if missing:
        # an interesting class the generator is built to reach stayed empty in this run
        if os.environ.get("VERIF_STRICT_STRATA") == "1":
            print(f"HARNESS-ERROR: generator did not reach required strata: {missing}")
            return 2
        print(f"NOTE: strata not reached in this run (recorded in the evidence): {missing}")
    tot = sum(r.get("evaluations", 0) for r in results)
    print(f"OK property={pid} tier={tier} seed={seed} evaluations={tot} "
          f"wall_s={time.time() - t0:.1f}")
    return 0


def safe(s):
    return "".join(ch if ch.isalnum() or ch in "-_." else "_" for ch in s)[:80]


def write_evidence(mod, tier, seed, t0, results, violations, unreproduced, known=(),
                   reg_files=0, missing=(), harness_errors=()):
    nontrivial = set()
    strata = collections.Counter()
    excluded = collections.Counter()
    samples = []
    evaluations = 0
    cases = 0
    extra = {}
    inconclusive = False
    for r in results:
        nontrivial.update(r.get("nontrivial", []))
        strata.update(r.get("strata", {}))
        excluded.update(r.get("excluded_known", {}))
        evaluations += r.get("evaluations", 0)
        cases += r.get("cases", 0)
        inconclusive = inconclusive or r.get("inconclusive_budget", False)
        for s in r.get("samples", []):
            if len(samples) < 8:
                samples.append(s)
        for k, v in (r.get("extra") or {}).items():
            if isinstance(v, (int, float)) and not isinstance(v, bool):
                extra[k] = extra.get(k, 0) + v
            elif isinstance(v, list):
                extra.setdefault(k, [])
                for x in v:
                    if x not in extra[k]:
                        extra[k].append(x)
            else:
                extra[k] = v
    cov = {
        "evaluations": evaluations,
        "distinct_nontrivial": len(nontrivial),
        "rule": mod.RULE,
        "samples": samples,
        "cases_generated": cases,
        "strata": dict(sorted(strata.items())),
        "excluded_known": dict(excluded),
        "regression_files_replayed": reg_files,
        "known_findings_reproduced": list(known),
        "inconclusive_budget": inconclusive,
        "unreproduced": unreproduced,
        "missing_required_strata": list(missing),
        "violating_buckets": [v["bucket"] for v in violations],
        "harness_errors": [h[:500] for h in harness_errors],
    }
    cov.update(extra)
    if getattr(mod, "LEVEL", "exploration") == "other":
        cov["explanation"] = getattr(mod, "EXPLANATION", mod.RULE)
    ev = {
        "property_id": mod.ID,
        "tier": tier,
        "seed": seed,
        "level": getattr(mod, "LEVEL", "exploration"),
        "coverage": cov,
        "assumptions": list(getattr(mod, "ASSUMPTIONS", [])),
        "wall_s": round(time.time() - t0, 2),
        "violations": len(violations),
    }
    evdir = os.environ.get("VERIF_EVIDENCE_DIR") or os.path.join(ROOT, "evidence")
    os.makedirs(evdir, exist_ok=True)
    with open(os.path.join(evdir, f"{mod.ID}.json"), "w") as fd:
        json.dump(ev, fd, indent=1, default=str)


def main(argv=None):
    ap = argparse.ArgumentParser(prog="check")
    sub = ap.add_subparsers(dest="cmd", required=True)
    w = sub.add_parser("worker")
    w.add_argument("prop")
    w.add_argument("--tier", default="quick")
    w.add_argument("--seed", type=int, default=1)
    w.add_argument("--shard", type=int, default=0)
    w.add_argument("--nshards", type=int, default=1)
    w.add_argument("--mode", default="gen")
    w.add_argument("--out", required=True)
    r = sub.add_parser("replay")
    r.add_argument("prop")
    r.add_argument("--replay", required=True)
    r.add_argument("--any-bucket", action="store_true")
    d = sub.add_parser("run")
    d.add_argument("prop")
    d.add_argument("--tier", default=os.environ.get("VERIF_TIER", "quick"))
    d.add_argument("--seed", type=int, default=int(os.environ.get("VERIF_SEED", "1")))
    args = ap.parse_args(argv)
    try:
        if args.cmd == "worker":
            return worker_main(args)
        if args.cmd == "replay":
            return replay_main(args)
        return driver_main(args)
    except SystemExit:
        raise
    except BaseException:
        traceback.print_exc()
        print("HARNESS-ERROR: exception in harness")
        return 2


if __name__ == "__main__":
    sys.exit(main())
