"""Hypothesis strategies for formulas, bases, queries (cases are JSON-able dicts)."""

import random

from hypothesis import strategies as st

from . import fm, ref

ATOMS = ["a", "b", "c", "d", "e", "f"]
OUTSIDE = "x9"


def _weighted(pairs):
    xs = []
    for x, w in pairs:
        xs += [x] * w
    return st.sampled_from(xs)


@st.composite
def literal(draw, atoms):
    a = fm.V(draw(st.sampled_from(atoms)))
    return fm.Not(a) if draw(st.booleans()) else a


@st.composite
def deep_formula(draw, atoms, max_leaves=6, consts=True):
    leaf = literal(atoms)
    if consts:
        leaf = st.one_of(leaf, leaf, leaf, leaf, st.sampled_from([fm.T, fm.F]))
    return draw(st.recursive(
        leaf,
        lambda ch: st.one_of(
            st.tuples(st.just("n"), ch),
            st.tuples(st.just("a"), ch, ch),
            st.tuples(st.just("o"), ch, ch),
        ),
        max_leaves=max_leaves,
    ))


SHAPES_ANT = [("lit", 40), ("conj", 22), ("disj", 8), ("deep", 12), ("T", 8), ("F", 1),
              ("taut", 2), ("contra", 1), ("mixc", 3), ("rep", 3)]
SHAPES_CONS = [("lit", 50), ("conj", 10), ("disj", 14), ("deep", 12), ("T", 1), ("F", 3),
               ("taut", 3), ("contra", 1), ("mixc", 3), ("rep", 3)]
SHAPES_NOCONST = [("lit", 50), ("conj", 20), ("disj", 14), ("deep", 12), ("rep", 4)]


@st.composite
def formula(draw, atoms, shapes=SHAPES_ANT, consts=True):
    shape = draw(_weighted(shapes))
    if shape == "lit":
        return draw(literal(atoms))
    if shape in ("conj", "disj"):
        k = draw(st.integers(2, 3))
        lits = [draw(literal(atoms)) for _ in range(k)]
        return fm.conj(lits) if shape == "conj" else fm.disj(lits)
    if shape == "deep":
        return draw(deep_formula(atoms, consts=consts))
    if shape == "T":
        return fm.T
    if shape == "F":
        return fm.F
    if shape == "taut":
        x = draw(literal(atoms))
        return fm.Or(x, fm.Not(x))
    if shape == "contra":
        x = draw(literal(atoms))
        return fm.And(x, fm.Not(x))
    if shape == "mixc":
        x = draw(formula(atoms, SHAPES_NOCONST, consts=False))
        c = draw(st.sampled_from([fm.T, fm.F]))
        op = draw(st.sampled_from(["a", "o"]))
        return (op, x, c) if draw(st.booleans()) else (op, c, x)
    if shape == "rep":  # repeated atoms
        x = draw(literal(atoms))
        y = draw(literal(atoms))
        return draw(st.sampled_from([fm.And(x, x), fm.Or(fm.And(x, y), x),
                                     fm.And(fm.Or(x, y), fm.Or(x, fm.Not(y))),
                                     fm.Not(fm.Not(x))]))
    raise AssertionError(shape)


@st.composite
def conditional(draw, atoms, consts=True):
    if consts:
        A = draw(formula(atoms, SHAPES_ANT))
        B = draw(formula(atoms, SHAPES_CONS))
    else:
        A = draw(formula(atoms, SHAPES_NOCONST, consts=False))
        B = draw(formula(atoms, SHAPES_NOCONST, consts=False))
    return (B, A)


@st.composite
def exception_chain(draw, atoms):
    """(y|x1), (!y|x1,x2), (y|x1,x2,x3) ... : guarantees several layers"""
    if len(atoms) < 2:
        return []
    k = draw(st.integers(2, min(4, len(atoms))))
    perm = draw(st.permutations(atoms))
    y = fm.V(perm[0])
    xs = [fm.V(p) for p in perm[1:k]]
    out = []
    cur = []
    for i, x in enumerate(xs):
        cur.append(x)
        cons = y if i % 2 == 0 else fm.Not(y)
        out.append((cons, fm.conj(cur)))
    return out


def repair_strong(atoms, conds):
    """keep only conditionals that enter a tolerance layer (construction, not rejection)"""
    sem = ref.Sem(atoms, conds)
    r = ref.partition(sem.ver, sem.fal, sem.full, extended=True)
    if r is None:
        # every world falsifies a never-tolerated conditional: drop those and retry once
        keep = []
        remaining = list(range(sem.m))
        while True:
            nofal = sem.full
            for j in remaining:
                nofal &= ~sem.fal[j]
            layer = [j for j in remaining if sem.ver[j] & nofal]
            if not layer:
                break
            keep += layer
            remaining = [j for j in remaining if j not in layer]
        keep.sort()
    else:
        layers, _ = r
        keep = sorted(j for L in layers[:-1] for j in L)
    out = [conds[j] for j in keep]
    if not out:
        out = [(fm.V(atoms[0]), fm.T)]
    return out


@st.composite
def atoms_st(draw, lo=1, hi=4):
    n = draw(st.integers(lo, hi))
    return ATOMS[:n]


@st.composite
def raw_base(draw, atoms, max_conds=6, consts=True, boosters=True, unfals=False):
    m = draw(st.integers(1, max_conds))
    conds = []
    if boosters and draw(st.integers(0, 3)) == 0:
        conds += draw(exception_chain(atoms))
    if boosters and len(atoms) >= 3 and draw(st.integers(0, 4)) == 0:
        # independent atoms in one layer: incomparable falsification sets
        x = fm.V(atoms[0])
        for y in atoms[1:]:
            conds.append((fm.V(y) if draw(st.booleans()) else fm.Not(fm.V(y)),
                          x if draw(st.booleans()) else fm.T))
    while len(conds) < m:
        conds.append(draw(conditional(atoms, consts=consts)))
    if unfals and draw(st.integers(0, 2)) == 0:
        x = draw(literal(atoms))
        y = draw(literal(atoms))
        conds.append(draw(st.sampled_from([
            (fm.Or(x, fm.Not(x)), y), (y, y), (fm.Or(x, y), x), (fm.T, y), (x, fm.And(x, y))])))
    if draw(st.integers(0, 9)) == 0 and conds:
        conds.append(draw(st.sampled_from(conds)))  # duplicate
    conds = list(draw(st.permutations(conds)))[: max_conds + 2]
    return conds


@st.composite
def strong_base(draw, lo=1, hi=4, max_conds=6, consts=True, unfals=False):
    atoms = draw(atoms_st(lo, hi))
    conds = draw(raw_base(atoms, max_conds, consts=consts, unfals=unfals))
    conds = repair_strong(atoms, conds)
    return atoms, conds


@st.composite
def layered_base(draw, lo=2, hi=4, max_conds=6, consts=False):
    """strongly consistent base that always contains an exception chain (>= 2 layers likely)"""
    atoms = draw(atoms_st(max(2, lo), hi))
    conds = draw(exception_chain(atoms))
    for _ in range(draw(st.integers(0, max(0, max_conds - len(conds))))):
        conds.append(draw(conditional(atoms, consts=consts)))
    conds = list(draw(st.permutations(conds)))
    return atoms, repair_strong(atoms, conds)


@st.composite
def weak_base(draw, lo=1, hi=4, max_conds=6, consts=True):
    """weakly consistent base: finite part + infinity-layer material"""
    atoms = draw(atoms_st(lo, hi))
    kind = draw(st.integers(0, 9))
    if kind == 0:
        conds = []  # no finite layer at all
    else:
        conds = repair_strong(atoms, draw(raw_base(atoms, max_conds, consts=consts)))
        if kind == 1:
            conds = conds[:1]
    k = draw(st.integers(0, 2)) if conds else draw(st.integers(1, 2))
    extra = []
    for _ in range(k):
        phi = draw(formula(atoms, SHAPES_NOCONST, consts=False))
        x = draw(literal(atoms))
        extra.append(draw(st.sampled_from([
            (fm.F, phi),                      # (Bottom|phi)
            (x, fm.And(phi, fm.Not(phi))),    # unverifiable
            (fm.Not(x), fm.And(x, phi)),      # self-contradicting
        ])))
        if draw(st.integers(0, 3)) == 0:
            y = draw(literal(atoms))
            extra += [(y, phi), (fm.Not(y), phi)]  # complementary pair
    allc = list(draw(st.permutations(conds + extra)))
    sem = ref.Sem(atoms, allc)
    r = ref.partition(sem.ver, sem.fal, sem.full, extended=True)
    if r is None:
        # every world infeasible: drop the extra material until accepted
        while extra and r is None:
            extra.pop()
            allc = conds + extra
            sem = ref.Sem(atoms, allc)
            r = ref.partition(sem.ver, sem.fal, sem.full, extended=True)
        if r is None or not allc:
            allc = [(fm.V(atoms[0]), fm.T)]
    return atoms, allc


@st.composite
def query_list(draw, atoms, conds, lo=3, hi=6, outside=True, consts=True):
    k = draw(st.integers(lo, hi))
    qs = []
    for _ in range(k):
        kind = draw(_weighted([("rand", 35), ("mat", 45), ("out", 5 if outside else 0),
                               ("triv", 5), ("neg", 10), ("deeptwin", 4 if len(atoms) >= 2 else 0)]))
        if kind == "deeptwin":
            # two queries that differ only deep inside a nested formula (a lossy rendering or
            # cache key that truncates deep sub-formulas cannot tell them apart)
            x, y = draw(st.permutations(atoms))[:2]
            z = draw(st.sampled_from(atoms))
            d = draw(st.integers(4, 8))
            op = draw(st.sampled_from(["a", "o"]))
            pad = fm.V(x) if op == "a" else fm.Not(fm.V(x))

            def nest(core, depth):
                for _ in range(depth):
                    core = (op, pad, core)
                return core
            where = draw(st.sampled_from(["cons", "ant"]))
            if where == "cons":
                A0 = fm.V(x) if draw(st.booleans()) or not conds else draw(st.sampled_from(conds))[1]
                qs.append((nest(fm.V(y), d), A0))
                qs.append((nest(draw(st.sampled_from([fm.Not(fm.V(y)), fm.V(z), fm.Not(fm.V(z))])), d), A0))
            else:
                B0 = draw(literal(atoms))
                qs.append((B0, nest(fm.V(y), d)))
                qs.append((B0, nest(draw(st.sampled_from([fm.Not(fm.V(y)), fm.V(z), fm.Not(fm.V(z))])), d)))
            continue
        if kind == "rand" or not conds:
            A = draw(formula(atoms, SHAPES_ANT if consts else SHAPES_NOCONST, consts=consts))
            B = draw(formula(atoms, SHAPES_CONS if consts else SHAPES_NOCONST, consts=consts))
        elif kind == "mat":
            Bi, Ai = draw(st.sampled_from(conds))
            Bj, Aj = draw(st.sampled_from(conds))
            x = draw(literal(atoms))
            A, B = draw(st.sampled_from([
                (Aj, Bi), (fm.And(Ai, x), Bi), (fm.Or(Ai, x), Bi), (fm.And(Ai, Aj), Bi),
                (Ai, fm.And(Bi, Bj)), (Ai, fm.Or(Bi, x)), (fm.And(Ai, Bi), Bj), (Ai, Bi),
                (fm.And(Ai, fm.Not(Bj)), Bi), (fm.Or(Ai, Aj), fm.Or(Bi, Bj))]))
        elif kind == "neg":
            Bi, Ai = draw(st.sampled_from(conds))
            x = draw(literal(atoms))
            A, B = draw(st.sampled_from([(Ai, fm.Not(Bi)), (fm.And(Ai, x), fm.Not(Bi)),
                                         (fm.Not(Bi), fm.Not(Ai)), (x, fm.Not(Ai))]))
        elif kind == "out":
            o = fm.V(draw(st.sampled_from([OUTSIDE, OUTSIDE, "y8", "w7"])))
            x = draw(formula(atoms, SHAPES_NOCONST, consts=False))
            y = draw(formula(atoms, SHAPES_NOCONST, consts=False))
            A, B = draw(st.sampled_from([(fm.And(x, o), y), (x, fm.Or(y, o)), (o, y), (x, o),
                                         (fm.Or(x, fm.Not(o)), y)]))
        else:  # triv
            x = draw(formula(atoms, SHAPES_NOCONST, consts=False))
            y = draw(literal(atoms))
            A, B = draw(st.sampled_from([(fm.F, y), (fm.And(y, fm.Not(y)), x), (x, fm.Or(x, y)),
                                         (x, fm.T), (x, fm.F), (fm.And(x, y), fm.Not(y))]))
        if kind in ("rand", "mat", "neg") and len(atoms) >= 2:
            # construction instead of rejection: a query decided by a short cut (A, A&B or A&notB
            # unsatisfiable) is mostly replaced by one over two distinct literals, which never is
            ats = all_atoms_of(A, B)
            a, b = fm.tt(A, ats), fm.tt(B, ats)
            if (not (a & b) or not (a & ~b & fm.full(len(ats)))) and draw(st.integers(0, 4)) > 0:
                x, y = draw(st.permutations(atoms))[:2]
                A = fm.V(x) if draw(st.booleans()) else fm.Not(fm.V(x))
                B = fm.V(y) if draw(st.booleans()) else fm.Not(fm.V(y))
                if conds and draw(st.booleans()):
                    Bi, Ai = draw(st.sampled_from(conds))
                    A = fm.And(A, Ai) if draw(st.booleans()) else A
        qs.append((B, A))
    return qs


def all_atoms_of(*fs):
    out = []
    for f in fs:
        for x in fm.atoms_of(f):
            if x not in out:
                out.append(x)
    return out or ["a"]


def mk_case(atoms, conds, queries, **extra):
    case = {
        "atoms": list(atoms),
        "base": [[i, fm.to_json(B), fm.to_json(A)] for i, (B, A) in enumerate(conds, start=1)],
        "queries": [[i, fm.to_json(B), fm.to_json(A)] for i, (B, A) in enumerate(queries, start=1)],
    }
    case.update(extra)
    return case


def case_parts(case):
    atoms = list(case["atoms"])
    base = [(k, fm.from_json(B), fm.from_json(A)) for k, B, A in case["base"]]
    queries = [(k, fm.from_json(B), fm.from_json(A)) for k, B, A in case.get("queries", [])]
    return atoms, base, queries


def all_atoms(atoms, base, queries):
    out = list(atoms)
    for _, B, A in list(base) + list(queries):
        for x in fm.atoms_of(A) + fm.atoms_of(B):
            if x not in out:
                out.append(x)
    return out


@st.composite
def multiclause_case(draw, hi=5, nq=4):
    """Bases whose conditionals have multi-clause non-falsification CNFs (conjunctive
    consequents, disjunctive antecedents) sharing a layer, with queries whose antecedent
    falsifies one of them in some worlds 'expensively' (several clauses) and in others
    'cheaply' together with a second conditional - the region where a MaxSAT cost order
    differs from set inclusion / cardinality."""
    n = draw(st.integers(4, hi))
    atoms = ATOMS[:n]
    perm = list(draw(st.permutations(atoms)))
    ant = draw(st.sampled_from([fm.T, fm.V(perm[0]), fm.V(perm[0])]))
    rest = perm[1:]
    k = draw(st.integers(2, min(3, len(rest) - 1)))

    def lit(a):
        return fm.V(a) if draw(st.integers(0, 3)) > 0 else fm.Not(fm.V(a))

    c1 = [lit(a) for a in rest[:k]]
    e = lit(rest[k])
    conds = [(fm.conj(c1), ant), (e, ant)]
    if draw(st.booleans()) and len(rest) > k + 1:
        conds.append((lit(rest[k + 1]), draw(st.sampled_from([ant, fm.And(ant, c1[0]), fm.T]))))
    if draw(st.integers(0, 2)) == 0:
        conds.append((draw(literal(atoms)), fm.Or(draw(literal(atoms)), draw(literal(atoms)))))
    conds = list(draw(st.permutations(conds)))
    qs = []
    for _ in range(nq):
        parts = [ant] if ant != fm.T else []
        parts.append(fm.Not(c1[draw(st.integers(0, k - 1))]))
        others = [fm.Not(x) for x in c1 if fm.Not(x) != parts[-1]]
        alt = fm.Or(fm.Not(e), fm.conj(others)) if draw(st.integers(0, 3)) > 0 else fm.Or(fm.Not(e), others[0])
        if draw(st.integers(0, 4)) > 0:
            parts.append(alt)
        A = fm.conj(parts)
        B = draw(st.sampled_from([fm.Or(fm.conj(c1[1:]), e), e, fm.conj(c1[1:]), fm.Or(c1[-1], e), fm.And(c1[-1], e),
                                  fm.Not(e), draw(literal(atoms))]))
        qs.append((B, A))
    conds = repair_strong(atoms, conds)
    return mk_case(atoms, conds, qs, family="multiclause")


@st.composite
def strong_case(draw, lo=1, hi=4, max_conds=6, consts=True, unfals=False, qlo=3, qhi=6):
    atoms, conds = draw(strong_base(lo, hi, max_conds, consts=consts, unfals=unfals))
    qs = draw(query_list(atoms, conds, qlo, qhi, consts=consts))
    return mk_case(atoms, conds, qs)


@st.composite
def weak_case(draw, lo=1, hi=4, max_conds=6, consts=True, qlo=3, qhi=6):
    atoms, conds = draw(weak_base(lo, hi, max_conds, consts=consts))
    qs = draw(query_list(atoms, conds, qlo, qhi, consts=consts))
    return mk_case(atoms, conds, qs)


# --------------------------------------------------------------------------------------
# plain-random generators (for oracle-guided search; the seed comes from Hypothesis)
# --------------------------------------------------------------------------------------

def r_literal(rnd, atoms):
    a = fm.V(rnd.choice(atoms))
    return fm.Not(a) if rnd.random() < 0.5 else a


def r_conj(rnd, atoms, k):
    xs = rnd.sample(atoms, min(k, len(atoms)))
    return fm.conj([fm.V(x) if rnd.random() < 0.5 else fm.Not(fm.V(x)) for x in xs])


def r_literal_base(rnd, n_atoms, m, max_ant=2):
    atoms = ATOMS[:n_atoms]
    conds = []
    for _ in range(m):
        k = rnd.randint(1, max_ant)
        A = r_conj(rnd, atoms, k)
        B = r_literal(rnd, atoms)
        conds.append((B, A))
    return atoms, conds


def r_query(rnd, atoms):
    return (r_literal(rnd, atoms), r_conj(rnd, atoms, rnd.randint(1, 2)))


# --------------------------------------------------------------------------------------
# generic minimiser for base/query cases
# --------------------------------------------------------------------------------------

def shrink_candidates(case):
    """smaller variants of a {atoms, base, queries} case, most aggressive first"""
    base = case["base"]
    qs = case.get("queries", [])
    # drop queries (keep one)
    if len(qs) > 1:
        for i in range(len(qs)):
            c = dict(case)
            c["queries"] = [qs[i]]
            yield c
    # drop conditionals
    if len(base) > 1:
        for i in range(len(base)):
            c = dict(case)
            c["base"] = base[:i] + base[i + 1:]
            yield c
    # simplify formulas
    for where in ("base", "queries"):
        items = case.get(where, [])
        for i, (k, B, A) in enumerate(items):
            for pos, f in ((1, B), (2, A)):
                for g in fm.simpler(fm.from_json(f)):
                    c = dict(case)
                    new = list(items[i])
                    new[pos] = fm.to_json(g)
                    c[where] = items[:i] + [new] + items[i + 1:]
                    yield c
    # drop unused atoms
    atoms, b, q = case_parts(case)
    used = set()
    for _, B, A in b + q:
        used |= set(fm.atoms_of(A)) | set(fm.atoms_of(B))
    if any(a not in used for a in atoms) and len(atoms) > 1:
        c = dict(case)
        c["atoms"] = [a for a in atoms if a in used] or atoms[:1]
        yield c


def renumber(case):
    """re-key base 1..n after dropping (parser convention) -- used by minimisers of
    properties whose cases always carry parser keys"""
    c = dict(case)
    c["base"] = [[i, B, A] for i, (_, B, A) in enumerate(case["base"], start=1)]
    return c


def case_hash(obj):
    import hashlib
    import json
    return hashlib.sha1(json.dumps(obj, sort_keys=True).encode()).hexdigest()[:12]


def case_size(case):
    import json
    return len(json.dumps(case))


def rng(seed):
    return random.Random(seed)
