"""Which SAT engines are usable under RC2 in this installation.

Decided by three sanity instances with known outcome (optimum after a blocking clause, an
unsatisfiable hard part, the empty formula), each engine probed in its own subprocess
because a broken engine may kill the interpreter (pysat's maplesat wrapper segfaults on the
empty formula).  Never decided by name.  The driver probes once and hands the list to its
workers through VERIF_ENGINES.
"""

import functools
import os
import subprocess
import sys

PROBE = r'''
import sys, warnings
warnings.filterwarnings("ignore")
from pysat.examples.rc2 import RC2
from pysat.formula import WCNF
name = sys.argv[1]
w = WCNF()
w.append([1, 2]); w.append([-1, -2])
w.append([-1], weight=1); w.append([-2], weight=1)
with RC2(w, solver=name) as r:
    m = r.compute()
    assert m is not None and r.cost == 1
    r.add_clause([-1 if 1 in m else -2])
    m2 = r.compute()
    assert m2 is not None and r.cost == 1
w = WCNF()
w.append([1]); w.append([-1]); w.append([2], weight=1)
with RC2(w, solver=name) as r:
    assert r.compute() is None
with RC2(WCNF(), solver=name) as r:
    assert r.compute() is not None and r.cost == 0
print("USABLE")
'''


def all_names():
    from pysat.solvers import SolverNames
    return [aliases[0] for attr, aliases in sorted(vars(SolverNames).items())
            if not attr.startswith("_")]


@functools.lru_cache(maxsize=None)
def usable():
    env = os.environ.get("VERIF_ENGINES")
    if env is not None:
        return tuple(x for x in env.split(",") if x)
    procs = []
    for name in all_names():
        procs.append((name, subprocess.Popen([sys.executable, "-c", PROBE, name],
                                             stdout=subprocess.PIPE, stderr=subprocess.DEVNULL)))
    ok = []
    for name, p in procs:
        out, _ = p.communicate()
        if p.returncode == 0 and b"USABLE" in out:
            ok.append(name)
    return tuple(ok)


def unusable():
    u = set(usable())
    return [n for n in all_names() if n not in u]
