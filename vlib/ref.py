"""Reference semantics by enumeration of all worlds (pure Python, no solver).

Everything here is written from the property statements / the standard definitions and
shares no code with the library under test.  Conditionals are given as
(verification mask, falsification mask) pairs over a common atom list (see fm.tt).
"""

from itertools import product

from . import fm

INF = float("inf")


class Sem:
    """Semantic view of a base: masks of every conditional over `atoms`."""

    def __init__(self, atoms, conds):
        """conds: list of (B, A) formulas"""
        self.atoms = tuple(atoms)
        self.n = len(self.atoms)
        self.full = fm.full(self.n)
        self.ver = []
        self.fal = []
        self.ant = []
        for B, A in conds:
            a = fm.tt(A, self.atoms)
            b = fm.tt(B, self.atoms)
            self.ant.append(a)
            self.ver.append(a & b)
            self.fal.append(a & ~b & self.full)
        self.m = len(conds)

    def qmasks(self, B, A):
        a = fm.tt(A, self.atoms)
        b = fm.tt(B, self.atoms)
        return a, a & b, a & ~b & self.full


# --------------------------------------------------------------------------------------
# tolerance partition
# --------------------------------------------------------------------------------------

def partition(ver, fal, full, extended=False, restrict=None):
    """Ordered tolerance partition straight from the definition.

    strict:   list of layers (lists of indices) or None if none exists.
    extended: (layers_including_last_infinity_layer, feasible_mask) or None if rejected.
    `restrict` limits the worlds considered (used for the extended-mode definitions).
    """
    universe = full if restrict is None else restrict
    remaining = list(range(len(ver)))
    layers = []
    while True:
        nofal = universe
        for j in remaining:
            nofal &= ~fal[j]
        if not remaining:
            if extended:
                layers.append([])
                return layers, universe
            return layers
        layer = [j for j in remaining if ver[j] & nofal]
        if not layer:
            if not extended:
                return None
            if nofal == 0:
                return None
            layers.append(list(remaining))
            return layers, nofal
        layers.append(layer)
        remaining = [j for j in remaining if j not in layer]


def strongly_consistent(sem):
    return sem.m > 0 and partition(sem.ver, sem.fal, sem.full) is not None


class Model:
    """A base together with its partition in one mode; answers all operators."""

    def __init__(self, sem, extended=False):
        self.sem = sem
        self.extended = extended
        if extended:
            r = partition(sem.ver, sem.fal, sem.full, extended=True)
            if r is None:
                self.ok = False
                return
            self.ok = True
            layers, feas = r
            self.layers = layers[:-1]
            self.inf_layer = layers[-1]
            self.feasible = feas
        else:
            r = partition(sem.ver, sem.fal, sem.full)
            if r is None:
                self.ok = False
                return
            self.ok = True
            self.layers = r
            self.inf_layer = []
            self.feasible = sem.full
        self.layer_of = {}
        for i, L in enumerate(self.layers):
            for j in L:
                self.layer_of[j] = i
        self._wcache = None

    # per-world falsification pattern per layer (top layer first)
    def _patterns(self):
        if self._wcache is None:
            sem = self.sem
            pats = {}
            for w in fm.worlds_of(self.feasible):
                vec = []
                for L in reversed(self.layers):
                    s = 0
                    for j in L:
                        if (sem.fal[j] >> w) & 1:
                            s |= 1 << j
                    vec.append(s)
                pats[w] = tuple(vec)
            self._wcache = pats
        return self._wcache

    def zrank(self, w):
        """Z-rank of world w (INF for infeasible worlds in extended mode)"""
        if not (self.feasible >> w) & 1:
            return INF
        pat = self._patterns()[w]
        k = len(self.layers)
        for pos, s in enumerate(pat):
            if s:
                return k - pos  # 1 + layer index; layer index = k-1-pos
        return 0

    def zrank_mask(self, mask):
        mask &= self.feasible
        return min((self.zrank(w) for w in fm.worlds_of(mask)), default=INF)

    # ---- generic vacuity handling (statement of C01-C05 / C07) -----------------------
    def _vacuity(self, a, v, f):
        feas = self.feasible
        if not (a & feas) or not (f & feas):
            return True
        if not (v & feas):
            return False
        return None

    def system_z(self, a, v, f):
        r = self._vacuity(a, v, f)
        if r is not None:
            return r
        return self.zrank_mask(v) < self.zrank_mask(f)

    @staticmethod
    def _w_less(p, q):
        """p <_w q for per-layer patterns (top layer first)"""
        for s, t in zip(p, q):
            if s == t:
                continue
            return (s & ~t) == 0  # proper subset (s != t here)
        return False

    def system_w(self, a, v, f):
        r = self._vacuity(a, v, f)
        if r is not None:
            return r
        pats = self._patterns()
        vp = {pats[w] for w in fm.worlds_of(v & self.feasible)}
        fp = {pats[w] for w in fm.worlds_of(f & self.feasible)}
        for q in fp:
            if not any(self._w_less(p, q) for p in vp):
                return False
        return True

    def lex(self, a, v, f):
        r = self._vacuity(a, v, f)
        if r is not None:
            return r
        pats = self._patterns()

        def vec(w):
            return tuple(bin(s).count("1") for s in pats[w])

        mv = min(vec(w) for w in fm.worlds_of(v & self.feasible))
        mf = min(vec(w) for w in fm.worlds_of(f & self.feasible))
        return mv < mf

    def p_entailment(self, a, v, f):
        r = self._vacuity(a, v, f)
        if r is not None:
            return r
        sem = self.sem
        fin = [j for L in self.layers for j in L]
        feas = self.feasible
        # finite layers plus the negated query (verification/falsification swapped),
        # worlds restricted to the feasible ones
        ver = [sem.ver[j] & feas for j in fin] + [f & feas]
        fal = [sem.fal[j] & feas for j in fin] + [v & feas]
        return partition(ver, fal, sem.full, restrict=feas) is None

    # ---- strata helpers --------------------------------------------------------------
    def w_tie_layer(self, v, f):
        """True iff some verifying and some falsifying world share the top-layer pattern"""
        pats = self._patterns()
        if not self.layers:
            return False
        tv = {pats[w][0] for w in fm.worlds_of(v & self.feasible)}
        tf = {pats[w][0] for w in fm.worlds_of(f & self.feasible)}
        return bool(tv & tf)

    def lex_features(self, v, f):
        """features of the lexicographic comparison used for stratified search"""
        pats = self._patterns()
        if not self.layers:
            return {}
        V = [pats[w] for w in fm.worlds_of(v & self.feasible)]
        Fs = [pats[w] for w in fm.worlds_of(f & self.feasible)]
        if not V or not Fs:
            return {}

        def card(p):
            return tuple(bin(s).count("1") for s in p)

        feats = {"tie_depth": 0, "multi_v": False, "multi_f": False, "diff_cont": False}
        # descend while cardinalities tie
        curV, curF = V, Fs
        for lvl in range(len(self.layers)):
            cv = min(card(p)[lvl] for p in curV)
            cf = min(card(p)[lvl] for p in curF)
            if cv != cf:
                break
            feats["tie_depth"] = lvl + 1
            curV = [p for p in curV if card(p)[lvl] == cv]
            curF = [p for p in curF if card(p)[lvl] == cf]
            # minimal sets (inclusion-minimal among those of minimum cardinality)
            sv = {p[lvl] for p in curV}
            sf = {p[lvl] for p in curF}
            if len(sv) >= 2:
                feats["multi_v"] = True
                conts = {min(card(p)[lvl + 1:] for p in curV if p[lvl] == s) for s in sv}
                if len(conts) >= 2:
                    feats["diff_cont"] = True
            if len(sf) >= 2:
                feats["multi_f"] = True
                conts = {min(card(p)[lvl + 1:] for p in curF if p[lvl] == s) for s in sf}
                if len(conts) >= 2:
                    feats["diff_cont"] = True
        return feats


def p_entailment_by_models_2atoms(sem, v, f, maxrank=3):
    """Second formulation for tiny signatures: accepted by every ranking model of the base
    (all rank maps W -> {0..maxrank, INF}).  Only for n <= 2 (5**4 maps)."""
    W = list(range(1 << sem.n))
    vals = list(range(maxrank + 1)) + [INF]

    def rk(kappa, mask):
        return min((kappa[w] for w in fm.worlds_of(mask)), default=INF)

    for kappa in product(vals, repeat=len(W)):
        if min(kappa) != 0:
            continue
        ok = True
        for j in range(sem.m):
            if not (rk(kappa, sem.ver[j]) < rk(kappa, sem.fal[j])):
                ok = False
                break
        if not ok:
            continue
        rv, rf = rk(kappa, v), rk(kappa, f)
        a_rank = min(rv, rf)
        if a_rank == INF:
            continue  # antecedent impossible in this model: accepted by convention
        if not (rv < rf):
            return False
    return True


# --------------------------------------------------------------------------------------
# c-representations
# --------------------------------------------------------------------------------------

def fal_pattern(sem, w):
    s = 0
    for j in range(sem.m):
        if (sem.fal[j] >> w) & 1:
            s |= 1 << j
    return s


def patterns_of(sem, mask):
    return {fal_pattern(sem, w) for w in fm.worlds_of(mask)}


def kappa_pat(eta, pat):
    s = 0
    j = 0
    while pat:
        if pat & 1:
            s += eta[j]
        pat >>= 1
        j += 1
    return s


def is_c_rep(sem, eta):
    """eta (tuple of non-negative ints) induces a ranking accepting every conditional"""
    if any((not isinstance(e, int)) or e < 0 for e in eta) or len(eta) != sem.m:
        return False
    for j in range(sem.m):
        vp = patterns_of(sem, sem.ver[j])
        fp = patterns_of(sem, sem.fal[j])
        if not vp:
            return False
        kv = min(kappa_pat(eta, p) for p in vp)
        kf = min((kappa_pat(eta, p) for p in fp), default=INF)
        if not kv < kf:
            return False
    return True


def c_accepts(sem, eta, v, f):
    """the c-representation eta accepts the query with verification v / falsification f"""
    kv = min((kappa_pat(eta, p) for p in patterns_of(sem, v)), default=INF)
    kf = min((kappa_pat(eta, p) for p in patterns_of(sem, f)), default=INF)
    return kv < kf


def c_inference_box(sem, a, v, f, bound):
    """skeptical c-inference restricted to impact vectors in [0..bound]^m:
    returns (answer_within_box, counter_model or None)"""
    if not a or not f:
        return True, None
    if not v:
        return False, None
    for eta in product(range(bound + 1), repeat=sem.m):
        if is_c_rep(sem, eta) and not c_accepts(sem, eta, v, f):
            return False, eta
    return True, None


def c_inference_smt(sem, a, v, f):
    """Skeptical c-inference via the naive world-level encoding handed to z3.
    Returns (answer, witness) where witness is a counter c-representation (validated by
    the caller in pure Python) when the answer is False for a non-vacuous query."""
    import z3

    if not a or not f:
        return True, None
    if not v:
        return False, None
    eta = [z3.Int(f"h{j}") for j in range(sem.m)]
    s = z3.Solver()
    for e in eta:
        s.add(e >= 0)

    def kap(p):
        terms = [eta[j] for j in range(sem.m) if (p >> j) & 1]
        return z3.Sum(terms) if terms else z3.IntVal(0)

    for j in range(sem.m):
        vp = patterns_of(sem, sem.ver[j])
        fp = patterns_of(sem, sem.fal[j])
        if not vp:
            return None, None  # not a consistent base: caller error
        if not fp:
            continue
        s.add(z3.Or([z3.And([kap(p) < kap(q) for q in fp]) for p in vp]))
    qv = patterns_of(sem, v)
    qf = patterns_of(sem, f)
    # negated acceptance: some falsifying world is at least as plausible as all verifying
    s.add(z3.Or([z3.And([kap(p) >= kap(q) for p in qv]) for q in qf]))
    r = s.check()
    if r == z3.sat:
        m = s.model()
        wit = tuple(int(str(m.eval(e, model_completion=True))) for e in eta)
        return False, wit
    if r == z3.unsat:
        return True, None
    return None, None


def exists_c_rep_box(sem, bound):
    for eta in product(range(bound + 1), repeat=sem.m):
        if is_c_rep(sem, eta):
            return eta
    return None


def pareto_minimal(vecs):
    vecs = list(set(vecs))
    out = []
    for x in vecs:
        if not any(y != x and all(yi <= xi for yi, xi in zip(y, x)) for y in vecs):
            out.append(x)
    return sorted(out)


def dominated_c_rep(sem, eta):
    """a c-representation component-wise <= eta and != eta, or None (finite check)"""
    for y in product(*[range(e + 1) for e in eta]):
        if y != tuple(eta) and is_c_rep(sem, y):
            return y
    return None


def lex_allpairs(M, v, f):
    """The lexicographic comparison evaluated with the 'every pair of minimum-cardinality
    sets' recursion (used only as a *search feature*: cases where this differs from the
    definition are the region in which the recursion structure matters)."""
    pats = M._patterns()
    V = [pats[w] for w in fm.worlds_of(v & M.feasible)]
    Fs = [pats[w] for w in fm.worlds_of(f & M.feasible)]
    k = len(M.layers)

    def card(s):
        return bin(s).count("1")

    def rec(V, Fs, lvl):
        if not V:
            return False
        if not Fs:
            return True
        cv = min(card(p[lvl]) for p in V)
        cf = min(card(p[lvl]) for p in Fs)
        if cv < cf:
            return True
        if cf < cv:
            return False
        sv = {p[lvl] for p in V if card(p[lvl]) == cv}
        sf = {p[lvl] for p in Fs if card(p[lvl]) == cf}
        for s in sv:
            for t in sf:
                if lvl == k - 1:
                    return False
                if not rec([p for p in V if p[lvl] == s], [p for p in Fs if p[lvl] == t], lvl + 1):
                    return False
        return True

    if k == 0:
        return False
    return rec(V, Fs, 0)
