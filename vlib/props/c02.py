"""C02 - System Z answers equal rank comparison under the Z-ranking."""

from .. import gen
from . import opsem

ID = "C02"
LEVEL = "exploration"
RULE = ("Hypothesis-generated strongly consistent bases (as C01, with exception-chain boosters so "
        "that 1, 2, 3 and >=4 layers all occur) x 3-6 queries; oracle = Z-rank of every world "
        "computed from the definition, answer kz(A&B) < kz(A&notB). evaluations = answers "
        "compared. non-trivial = A, A&B, A&notB all satisfiable; distinct by (atom count, base "
        "masks, query masks). Strata: expected answer, number of layers, deciding layer.")
ASSUMPTIONS = ["CPython, Hypothesis, harness reference semantics (self-checked p<=Z<=W<=lex)",
               "programmatic construction with parser conventions"]
CFGS = ["z"]


def budget(tier):
    return {"examples": 6000 if tier == "quick" else 40000,
            "soft_seconds": 150 if tier == "quick" else 1500}


def strategy(tier):
    return gen.strong_case(1, 4 if tier == "quick" else 5, 6)


def _strata(ctx, M, q, BA, e):
    a, v, f = q
    if a and v and f:
        rv, rf = M.zrank_mask(v), M.zrank_mask(f)
        top = len(M.layers)
        if rv == top or rf == top:
            ctx.stratum("decided-at:top-layer")
        elif min(rv, rf) == 0:
            ctx.stratum("decided-at:layer-0")
        else:
            ctx.stratum("decided-at:middle")
        if rv == rf:
            ctx.stratum("rank-tie")


def run_case(case, ctx):
    return opsem.compare(ID, case, ctx, CFGS, strata_fn=_strata)



def extra_cases(tier, shard, nshards, ctx):
    if tier != "thorough":
        return
    yield from opsem.corpus484(shard, nshards, ctx)


def shrink(case):
    for c in gen.shrink_candidates(case):
        yield gen.renumber(c)


describe = opsem.describe


def required_strata(tier):
    return ["expected=True", "expected=False", "layers=1", "layers=2", "layers=3", "layers=4",
            "decided-at:top-layer", "decided-at:layer-0", "rank-tie"]
