"""Shared engine: library answers vs. the reference semantics (C01-C05, C07)."""

from .. import bridge, fm, gen, ref
from ..core import obs


class HarnessError(Exception):
    pass


EXPECT = {
    "p": lambda M, a, v, f: M.p_entailment(a, v, f),
    "z": lambda M, a, v, f: M.system_z(a, v, f),
    "w": lambda M, a, v, f: M.system_w(a, v, f),
    "lex": lambda M, a, v, f: M.lex(a, v, f),
}


def op_of(cfg):
    return cfg.split("-")[0]


def is_bool(x):
    if isinstance(x, bool):
        return True
    try:
        import numpy as np
        return isinstance(x, np.bool_)
    except Exception:
        return False


def self_check(M, a, v, f):
    """theorems the properties rely on must hold inside the oracle"""
    p = M.p_entailment(a, v, f)
    z = M.system_z(a, v, f)
    w = M.system_w(a, v, f)
    lx = M.lex(a, v, f)
    if (p and not z) or (z and not w) or (w and not lx):
        raise HarnessError(f"oracle self-check failed: p={p} z={z} w={w} lex={lx}")
    return p, z, w, lx


def build(case):
    atoms, base, queries = gen.case_parts(case)
    allat = gen.all_atoms(atoms, base, queries)
    conds = [(B, A) for _, B, A in base]
    sem = ref.Sem(allat, conds)
    return atoms, base, queries, allat, sem


def base_strata(ctx, sem, M, base):
    ctx.stratum(f"layers={min(len(M.layers), 4)}{'+' if len(M.layers) > 4 else ''}")
    if any(fm.has_const(B) or fm.has_const(A) for _, B, A in base):
        ctx.stratum("base:constants")
    if any(sem.fal[j] == 0 for j in range(sem.m)):
        ctx.stratum("base:unfalsifiable-conditional")
    pairs = [(sem.ver[j], sem.fal[j]) for j in range(sem.m)]
    if len(set(pairs)) < len(pairs):
        ctx.stratum("base:duplicate-meaning")
    if M.extended:
        ctx.stratum(f"inf-layer={'nonempty' if M.inf_layer else 'empty'}")


def compare(pid, case, ctx, cfgs, extended=False, expect=None, strata_fn=None):
    """run every cfg on the case and compare each answer with the reference"""
    atoms, base, queries, allat, sem = build(case)
    if not base or not queries:
        ctx.stratum("skipped:empty")
        return []
    M = ref.Model(sem, extended=extended)
    if not M.ok:
        ctx.stratum("skipped:not-in-domain")
        return []
    base_strata(ctx, sem, M, base)
    qm = [sem.qmasks(B, A) for _, B, A in queries]
    exp = {}
    for cfg in cfgs:
        fn = (expect or {}).get(op_of(cfg)) or EXPECT[op_of(cfg)]
        exp[cfg] = [fn(M, a, v, f) for a, v, f in qm]
    for a, v, f in qm:
        self_check(M, a, v, f)
    out = []
    sig = (len(allat), tuple(zip(sem.ver, sem.fal)))
    kw = {}
    variant = case.get("variant")
    if variant is None:
        # the same question asked under another, answer-neutral circumstance (chosen by case hash)
        h = int(gen.case_hash([case.get("atoms"), case.get("base"), case.get("queries")]), 16) % 20
        variant = {0: "parallel", 1: "parallel", 2: "debug-logging", 3: "recycled-base-object",
                   4: "second-call", 5: "undeclared-atom", 6: "warm-query-objects"}.get(h, "plain")
    import logging
    liblog = logging.getLogger("inference")
    if variant == "debug-logging":
        # DEBUG enabled for the library's loggers (the handlers still filter the output)
        ctx.stratum("variant:debug-logging")
        liblog.setLevel(logging.DEBUG)
    recycled = None
    if variant == "recycled-base-object" and len(base) >= 1:
        # the caller edits a knowledge base in place: a BeliefBase object that an earlier manager
        # has already worked on (with other conditionals under the same keys) now holds this base
        ctx.stratum("variant:recycled-base-object")
        L = bridge.lib()
        decoy = [(k, fm.V(allat[i % len(allat)]), fm.T if i % 2 else fm.V(allat[(i + 1) % len(allat)]))
                 for i, (k, _, _) in enumerate(base)]
        recycled = bridge.mk_bb(atoms, decoy)
    if variant == "undeclared-atom" and len(atoms) >= 2:
        # the declared signature omits an atom the conditionals use (BeliefBase takes any list and
        # the parser records but never enforces the declaration); the semantics is unaffected
        ctx.stratum("variant:signature-omits-a-used-atom")
        atoms = list(atoms[:-1])
    if variant == "warm-query-objects":
        # the query objects have a past: used the way a belief-base member or an acceptance test
        # uses a Conditional (all public formula builders called) before they are asked
        ctx.stratum("variant:warm-query-objects")
    if variant == "second-call":
        # the batch is the SECOND inference() call of its manager (preprocessing is skipped then)
        ctx.stratum("variant:second-call-on-manager")
    if variant == "parallel" and len({fm.cond_text(B, A) for _, B, A in queries}) == len(queries):
        # same question under another way of asking: parallel evaluation with budgets that cannot
        # expire (60 s per query, 600 s total) - the answers are the definition's all the same
        kw = {"multi_inference": True, "inference_timeout": 60, "total_timeout": 600}
        ctx.stratum("variant:parallel-with-generous-budgets")
    for cfg in cfgs:
        try:
            if recycled is not None:
                res = answers_on_recycled(recycled, atoms, base, queries, cfg, extended)
            elif variant == "second-call":
                res = answers_second_call(atoms, base, queries, cfg, extended)
            elif variant == "warm-query-objects":
                res = answers_warm_queries(atoms, base, queries, cfg, extended)
            else:
                res = bridge.answers(atoms, base, queries, cfg, weakly=extended, **kw)
        finally:
            liblog.setLevel(logging.NOTSET)
            if variant == "debug-logging":
                liblog.setLevel(logging.DEBUG)
        if res[0] == "exc":
            ctx.ev(1)
            out.append(obs(f"{cfg}|{res[1]}", {"message": res[2], "base": base_text(base), "call_options": kw},
                           case=dict(case, variant=variant)))
            continue
        got = res[1]
        if len(got) != len(queries):
            out.append(obs(f"{cfg}|table-shape", {"rows": len(got), "queries": len(queries)}))
            continue
        for i, ((k, B, A), (a, v, f)) in enumerate(zip(queries, qm)):
            ctx.ev(1)
            e = exp[cfg][i]
            g = got[i]
            nontriv = bool(a and v and f and (a & M.feasible) and (v & M.feasible) and (f & M.feasible))
            if nontriv:
                ctx.nt(repr((sig, v, f)))
                ctx.stratum(f"expected={e}")
            else:
                ctx.stratum("query:vacuous")
            if strata_fn is not None:
                strata_fn(ctx, M, (a, v, f), (B, A), e)
            row = res[2][i]
            if kw and (bool(row["inference_timed_out"]) or bool(row["preprocessing_timed_out"])):
                ctx.stratum("variant:row-flagged(not judged)")    # a 60 s budget expired for real: inconclusive
                continue
            if not is_bool(g):
                out.append(obs(f"{cfg}|non-boolean", {"query": fm.cond_text(B, A), "got": repr(g)}))
            elif bool(g) != e:
                out.append(obs(f"{cfg}|wrong:{e}->{bool(g)}",
                               {"query": fm.cond_text(B, A), "expected": e, "got": bool(g),
                                "base": base_text(base), "qindex": i, "call_options": kw},
                               case=dict(case, variant=variant)))
    liblog.setLevel(logging.NOTSET)
    if len(ctx.samples) < ctx.max_samples and ctx.record and not case.get("exhaustive") and len(base) >= 2:
        ctx.sample({"base": base_text(base), "queries": [fm.cond_text(B, A) for _, B, A in queries],
                    "expected": {c: exp[c] for c in cfgs}})
    return out


def answers_second_call(atoms, base, queries, cfg, weakly):
    L = bridge.lib()
    system, pm = bridge.cfg_of(cfg)
    try:
        man = L["InferenceManager"](bridge.mk_bb(atoms, base), system, pmaxsat_solver=pm, weakly=weakly)
        k, B, A = queries[-1]
        man.inference(bridge.mk_queries([(k, B, A)]))
        rows = bridge.df_rows(man.inference(bridge.mk_queries(queries)))
    except BaseException as e:  # noqa: BLE001
        if isinstance(e, (KeyboardInterrupt, SystemExit, MemoryError)):
            raise
        return ("exc", bridge.exc_symptom(e), f"{type(e).__name__}: {e}"[:300])
    return ("ok", [r["result"] for r in rows], rows)


def answers_warm_queries(atoms, base, queries, cfg, weakly):
    L = bridge.lib()
    system, pm = bridge.cfg_of(cfg)
    try:
        q = bridge.mk_queries(queries)
        for qc in q.conditionals.values():
            qc.make_A_then_B(), qc.make_A_then_not_B(), qc.make_not_A_or_B(), qc.make_B()
        man = L["InferenceManager"](bridge.mk_bb(atoms, base), system, pmaxsat_solver=pm, weakly=weakly)
        rows = bridge.df_rows(man.inference(q))
    except BaseException as e:  # noqa: BLE001
        if isinstance(e, (KeyboardInterrupt, SystemExit, MemoryError)):
            raise
        return ("exc", bridge.exc_symptom(e), f"{type(e).__name__}: {e}"[:300], bridge.exc_origin(e))
    return ("ok", [r["result"] for r in rows], rows)


def answers_on_recycled(bb, atoms, base, queries, cfg, weakly):
    """one manager works on the decoy content of `bb`; then the object is edited in place to
    hold `base` and a NEW manager answers the queries"""
    L = bridge.lib()
    system, pm = bridge.cfg_of(cfg)
    try:
        try:
            L["InferenceManager"](bb, system, pmaxsat_solver=pm, weakly=weakly).inference(
                bridge.mk_queries([(1, fm.V(atoms[0]), fm.T)]))
        except BaseException:  # noqa: BLE001 - the decoy may be inconsistent; only its side effects matter
            pass
        for k, B, A in base:
            bb.conditionals[k] = bridge.mk_cond(B, A)
        df = L["InferenceManager"](bb, system, pmaxsat_solver=pm, weakly=weakly).inference(bridge.mk_queries(queries))
        rows = bridge.df_rows(df)
        # restore the decoy content for the next configuration
    except BaseException as e:  # noqa: BLE001
        if isinstance(e, (KeyboardInterrupt, SystemExit, MemoryError)):
            raise
        return ("exc", bridge.exc_symptom(e), f"{type(e).__name__}: {e}"[:300])
    finally:
        for i, k in enumerate(list(bb.conditionals)):
            bb.conditionals[k] = bridge.mk_cond(fm.V(atoms[i % len(atoms)]), fm.T)
    return ("ok", [r["result"] for r in rows], rows)


def base_text(base):
    return [f"{k}:{fm.cond_text(B, A)}" for k, B, A in base]


def describe(case, extended=False):
    atoms, base, queries, allat, sem = build(case)
    M = ref.Model(sem, extended=extended)
    lines = [f"atoms={atoms} base={base_text(base)}"]
    if M.ok:
        lines.append(f"reference layers={M.layers} inf_layer={M.inf_layer} "
                     f"feasible_worlds={bin(M.feasible).count('1')}/{1 << sem.n}")
        for k, B, A in queries:
            a, v, f = sem.qmasks(B, A)
            lines.append(f"  query {fm.cond_text(B, A)}: ref p={M.p_entailment(a, v, f)} "
                         f"z={M.system_z(a, v, f)} w={M.system_w(a, v, f)} lex={M.lex(a, v, f)}")
    else:
        lines.append("reference: base not consistent in this mode")
    return "\n".join(lines)


# --------------------------------------------------------------------------------------
# exhaustive two-atom sub-domains (thorough tier)
# --------------------------------------------------------------------------------------

def dnf2(mask, atoms=("a", "b")):
    n = len(atoms)
    terms = []
    for w in range(1 << n):
        if (mask >> w) & 1:
            terms.append(fm.conj([fm.V(a) if (w >> i) & 1 else fm.Not(fm.V(a)) for i, a in enumerate(atoms)]))
    if not terms:
        return fm.And(fm.V(atoms[0]), fm.Not(fm.V(atoms[0])))
    if len(terms) == 1 << n:
        return fm.Or(fm.V(atoms[0]), fm.Not(fm.V(atoms[0])))
    return fm.disj(terms)


def all_queries2():
    forms = [dnf2(m) for m in range(16)]
    return [(forms[b], forms[a]) for a in range(16) for b in range(16)]


def exhaustive_one_conditional(shard, nshards, ctx, chunk=32):
    """every consistent one-conditional base over two atoms (all 16 x 16 semantic
    conditionals) x all 256 semantic queries"""
    forms = [dnf2(m) for m in range(16)]
    qs = all_queries2()
    idx = 0
    for a in range(16):
        for b in range(16):
            A, B = forms[a], forms[b]
            if not (fm.tt(A, ("a", "b")) & fm.tt(B, ("a", "b"))):
                continue  # not verifiable: inconsistent base
            for off in range(0, len(qs), chunk):
                idx += 1
                if idx % nshards != shard:
                    continue
                ctx.stratum("exhaustive:one-conditional-2atoms")
                yield gen.mk_case(["a", "b"], [(B, A)], qs[off:off + chunk], exhaustive=True)
    ctx.extra["exhaustive_domains"] = ["all consistent one-conditional bases over two atoms x all 256 semantic queries"]


def corpus484(shard, nshards, ctx, chunk=64):
    """the shipped 484 inference-relation representatives x all 256 semantic queries"""
    from .. import rel
    qs = all_queries2()
    idx = 0
    for kb, q, *_ in rel.corpus_refs(2, 2, families=["484"]):
        atoms, base, _ = rel.load_corpus(kb, q)
        for off in range(0, len(qs), chunk):
            idx += 1
            if idx % nshards != shard:
                continue
            ctx.stratum("exhaustive:484-corpus")
            c = gen.mk_case(atoms, [(B, A) for _, B, A in base], qs[off:off + chunk], exhaustive=True)
            yield c
    ctx.extra.setdefault("exhaustive_domains", []).append("484 two-atom inference-relation representatives x all 256 semantic queries")
