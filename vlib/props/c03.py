"""C03 - System W answers equal the preferred-structure definition (both back-ends)."""

from .. import gen
from . import opsem

ID = "C03"
LEVEL = "exploration"
RULE = ("Hypothesis-generated strongly consistent bases (as C01, boosters for independent atoms in "
        "one layer, exception chains, multi-clause formulas, constants) x 3-6 queries x both "
        "MaxSAT back-ends (rc2, z3); oracle = preferred structure <_w computed over all worlds. "
        "evaluations = (query, back-end) answers compared. non-trivial = A, A&B, A&notB all "
        "satisfiable; distinct by (atom count, base masks, query masks). Strata: W!=Z answers, "
        "tie at the top layer, incomparable falsification sets. A further source are "
        "'distinguishing inputs' (vlib/hard.py): queries built from chosen world sets on which the "
        "recursive System W procedure and one of 15 plausible wrong variants of it (quantifier "
        "swapped, no minimisation, recursion not restricted to the tie set, cost-ordered "
        "enumeration without superset removal, ...) disagree - chosen on the reference side only.")
ASSUMPTIONS = ["CPython, Hypothesis, harness reference semantics (self-checked p<=Z<=W<=lex)",
               "programmatic construction with parser conventions"]
CFGS = ["w-rc2", "w-z3"]


def budget(tier):
    return {"examples": 2400 if tier == "quick" else 20000, "hard_examples": 480 if tier == "quick" else 6000,
            "soft_seconds": 200 if tier == "quick" else 1800}


def _search(seed):
    from .. import search as S
    return S.worldset_search(seed, "superset-before-subset", max_candidates=6000)


def _search3(seed):
    from .. import search as S
    return S.three_layer_search(seed)


def _hard(seed):
    from .. import hard
    return hard.any_kind(seed, [k for k in hard.KINDS if k.startswith("w:")])


def _layered():
    from hypothesis import strategies as st

    @st.composite
    def go(draw):
        atoms, conds = draw(gen.layered_base(3, 5, 7))
        return gen.mk_case(atoms, conds, draw(gen.query_list(atoms, conds, 3, 5)))
    return go()


def strategy(tier):
    from hypothesis import strategies as st
    return st.one_of(gen.strong_case(1, 4 if tier == "quick" else 5, 6),
                     gen.strong_case(1, 4 if tier == "quick" else 5, 6),
                     gen.multiclause_case(5), _layered(),
                     st.integers(0, 2**40).map(_search), st.integers(0, 2**40).map(_search3))


def hard_strategy(tier):
    from hypothesis import strategies as st
    return st.integers(0, 2**40).map(_hard)


def _strata(ctx, M, q, BA, e):
    a, v, f = q
    if a and v and f:
        if e != M.system_z(a, v, f):
            ctx.stratum("W!=Z")
        if M.w_tie_layer(v, f):
            ctx.stratum("tie-at-top-layer")
        pats = M._patterns()
        from .. import fm
        tops = {pats[w][0] for w in fm.worlds_of(f)} if M.layers else set()
        if any((s & ~t) and (t & ~s) for s in tops for t in tops):
            ctx.stratum("incomparable-sets")


def run_case(case, ctx):
    if str(case.get("searched", "")).startswith("w:"):
        ctx.stratum("search:distinguishing-input")
    if case.get("searched"):
        ctx.stratum(f"search:{case['searched']}")
        ctx.extra["reference_only_candidates"] = ctx.extra.get("reference_only_candidates", 0) + case.get("tried", 0)
    return opsem.compare(ID, case, ctx, CFGS, strata_fn=_strata)



def extra_cases(tier, shard, nshards, ctx):
    if tier != "thorough":
        return
    yield from opsem.corpus484(shard, nshards, ctx)


def shrink(case):
    for c in gen.shrink_candidates(case):
        c = gen.renumber(c)
        c.pop("searched", None)
        c.pop("tried", None)
        yield c


describe = opsem.describe


def required_strata(tier):
    return ["expected=True", "expected=False", "W!=Z", "tie-at-top-layer", "incomparable-sets",
            "search:superset-before-subset", "search:three-layer-tie", "layers=3", "search:distinguishing-input"]
