"""C01 - p-entailment answers equal the definition on every consistent base."""

from .. import gen
from . import opsem

ID = "C01"
LEVEL = "exploration"
RULE = ("Hypothesis-generated strongly consistent bases (1-4 atoms quick / 1-5 thorough, 1-6 "
        "conditionals, all formula shapes incl. Top/Bottom, tautologies, duplicates; made "
        "consistent by construction) x 3-6 queries (random, built from base material, atoms "
        "outside the signature, trivial shapes); oracle = tolerance test on D+(notB|A) by world "
        "enumeration. evaluations = (query, configuration) answers compared. non-trivial = A, "
        "A&B, A&notB all satisfiable; distinct by (atom count, verification/falsification "
        "masks of the base, query masks).")
ASSUMPTIONS = ["CPython, Hypothesis, harness reference semantics (self-checked: p<=Z<=W<=lex on "
               "every case)", "bases are built programmatically with parser conventions (keys "
               "1..n, parser-style text)"]
CFGS = ["p"]


def budget(tier):
    return {"examples": 8000 if tier == "quick" else 40000,
            "soft_seconds": 150 if tier == "quick" else 1500}


def strategy(tier):
    hi = 4 if tier == "quick" else 5
    return gen.strong_case(1, hi, 6)


def run_case(case, ctx):
    if case.get("exhaustive") and len(case["atoms"]) == 2:
        # second formulation of the statement ("accepted by every ranking model of D"), evaluated
        # over ALL rank maps of the four worlds: validates the oracle's reading, not the library
        from .. import ref
        atoms, base, queries, allat, sem = opsem.build(case)
        if len(allat) == 2 and ref.strongly_consistent(sem):
            M = ref.Model(sem)
            for _, B, A in queries:
                a, v, f = sem.qmasks(B, A)
                if M.p_entailment(a, v, f) != ref.p_entailment_by_models_2atoms(sem, v, f):
                    raise opsem.HarnessError("tolerance-test and all-ranking-models formulations disagree")
                ctx.stratum("oracle:two-formulations-agree")
    return opsem.compare(ID, case, ctx, CFGS, extended=False)



def extra_cases(tier, shard, nshards, ctx):
    if tier != "thorough":
        return
    yield from opsem.exhaustive_one_conditional(shard, nshards, ctx)
    yield from opsem.corpus484(shard, nshards, ctx)


def shrink(case):
    for c in gen.shrink_candidates(case):
        yield gen.renumber(c)


def describe(case):
    return opsem.describe(case)


def required_strata(tier):
    return ["expected=True", "expected=False", "layers=1", "layers=2", "layers=3"]
