"""C14 - time budgets never produce an unflagged wrong answer (fault enumeration)."""

from hypothesis import strategies as st

from .. import bridge, fm, gen, ref
from ..core import obs

ID = "C14"
LEVEL = "fault_enumeration"
RULE = ("The harness owns the clock: perf_counter in inference.deadline and perf_counter_ns in "
        "inference.inference are replaced by one virtual monotone clock; z3.Optimize.check is "
        "wrapped. For each Hypothesis-drawn case (small base, 3-4 queries, operator x back-end x "
        "mode, budget triple total/preprocessing/per-query from {0,1,2,5,60} s with at least one "
        "set, sequential or parallel): a budget-free run gives the reference rows; a dry run with "
        "budgets and a quiet clock counts the N clock observations and M Optimize.check calls; "
        "then for EVERY k<=N the run is repeated on a fresh manager with the clock jumping at the "
        "k-th observation by each of three amounts (just past the smallest budget, past the "
        "per-query budget, past everything; monotone afterwards), and for the z3 back-ends with a "
        "per-query deadline for EVERY j<=M the j-th Optimize.check returns unknown (a) without a "
        "model (b) after the real call; after each faulty call a budget-free call is made on the "
        "same manager. Oracle: no exception escapes; every row is flagged (inference_timed_out or "
        "preprocessing_timed_out) with answer False or equals the reference answer; same for the "
        "follow-up call. evaluations = injections executed (exhaustive over k and j per case). "
        "non-trivial = injection after which >=1 row is flagged and >=1 row is not; distinct by "
        "(case, injection).")
ASSUMPTIONS = ["the clock only jumps forward and stays monotone; 'unknown' is injected only where a "
               "solver timeout was actually set (z3 back-ends under a per-query deadline)",
               "a z3-internal partial model after a genuine timeout is represented by 'unknown with the "
               "last model' only", "reference rows come from a budget-free run of the same configuration"]
TECHNIQUE = "fault enumeration: every clock observation point and every Optimize.check call per generated case (virtual clock, interposed solver)"

CFGS = [("p", False), ("z", False), ("w-rc2", False), ("w-z3", False), ("lex-rc2", False), ("lex-z3", False),
        ("c", False), ("w-rc2", True), ("w-z3", True), ("lex-rc2", True), ("lex-z3", True), ("z", True), ("p", True)]


def budget(tier):
    return {"examples": 176 if tier == "quick" else 1600,
            "soft_seconds": 400 if tier == "quick" else 3000}


@st.composite
def _case(draw, tier):
    cfg, weakly = draw(st.sampled_from(CFGS))
    if weakly and draw(st.booleans()):
        atoms, conds = draw(gen.weak_base(2, 4, 5))
    else:
        atoms, conds = draw(gen.strong_base(2, 4, 5, consts=False))
    qs = draw(gen.query_list(atoms, conds, 3, 4, outside=False, consts=False))
    # distinct texts (the table is keyed by text)
    seen, uq = set(), []
    for B, A in qs:
        t = fm.cond_text(B, A)
        if t not in seen:
            seen.add(t)
            uq.append((B, A))
    vals = [0, 1, 2, 5, 60]
    while True:
        b = {"total": draw(st.sampled_from(vals)), "pre": draw(st.sampled_from(vals)),
             "inf": draw(st.sampled_from(vals))}
        if any(b.values()):
            break
    c = gen.mk_case(atoms, conds, uq)
    c.update({"cfg": cfg, "weakly": weakly, "budgets": b, "parallel": draw(st.integers(0, 5)) == 0})
    return c


@st.composite
def _tie_case(draw, tier):
    """lexicographic tie structures (C04's oracle-guided search) under a z3 back-end with a
    per-query budget: every Optimize.check of such a query becomes a give-up point"""
    from . import c04
    c = dict(c04.search(draw(st.integers(0, 2**40))))
    c.pop("tried", None)
    qs = c["queries"]
    seen, uq = set(), []
    for q in qs:
        t = json_key(q)
        if t not in seen:
            seen.add(t)
            uq.append(q)
    c["queries"] = uq[:3]
    c.update({"cfg": draw(st.sampled_from(["lex-z3", "lex-z3", "w-z3"])), "weakly": draw(st.integers(0, 3)) == 0,
              "budgets": {"total": 0, "pre": 0, "inf": draw(st.sampled_from([1, 2, 5, 60]))}, "parallel": False})
    return c


def json_key(q):
    import json
    return json.dumps(q[1:])


def strategy(tier):
    return st.one_of(_case(tier), _case(tier), _case(tier), _tie_case(tier))


class VClock:
    def __init__(self, jump_at=None, jump=0.0):
        self.t = 1000.0
        self.n = 0
        self.jump_at = jump_at
        self.jump = jump

    def tick(self):
        self.n += 1
        if self.jump_at is not None and self.n == self.jump_at:
            self.t += self.jump
        self.t += 1e-6
        return self.t

    def perf_counter(self):
        return self.tick()

    def perf_counter_ns(self):
        return int(self.tick() * 1e9)


class Interpose:
    """installs the virtual clock and the Optimize.check wrapper for one run"""
    orig_check = None

    def __init__(self, clock, unknown_at=None, unknown_mode="nomodel"):
        self.clock = clock
        self.unknown_at = unknown_at
        self.unknown_mode = unknown_mode
        self.checks = 0

    def __enter__(self):
        import z3

        import inference.deadline as D
        import inference.inference as I
        self.D, self.I = D, I
        self.saved = (D.perf_counter, I.perf_counter_ns)
        D.perf_counter = self.clock.perf_counter
        I.perf_counter_ns = self.clock.perf_counter_ns
        if Interpose.orig_check is None:
            Interpose.orig_check = z3.Optimize.check
        me = self

        def check(opt, *a):
            me.checks += 1
            if me.unknown_at is not None and me.checks == me.unknown_at:
                if me.unknown_mode == "nomodel":
                    return z3.unknown
                Interpose.orig_check(opt, *a)
                return z3.unknown
            return Interpose.orig_check(opt, *a)

        z3.Optimize.check = check
        return self

    def __exit__(self, *exc):
        import z3
        self.D.perf_counter, self.I.perf_counter_ns = self.saved
        z3.Optimize.check = Interpose.orig_check
        return False


def run_once(case, parts, inj, with_budgets=True):
    """-> ('ok', rows, followup_rows, n_obs, n_checks) | ('exc', where, symptom, message)"""
    L = bridge.lib()
    atoms, base, queries = parts
    system, pm = bridge.cfg_of(case["cfg"])
    b = case["budgets"] if with_budgets else {"total": 0, "pre": 0, "inf": 0}
    clock = VClock(inj.get("k"), inj.get("jump", 0.0)) if inj.get("kind") == "clock" else VClock()
    ip = Interpose(clock, inj.get("j") if inj.get("kind") == "unknown" else None, inj.get("mode", "nomodel"))
    with ip:
        man = L["InferenceManager"](bridge.mk_bb(atoms, base), system, pmaxsat_solver=pm, weakly=case["weakly"])
        try:
            df = man.inference(bridge.mk_queries(queries), total_timeout=b["total"],
                               preprocessing_timeout=b["pre"], inference_timeout=b["inf"],
                               multi_inference=bool(case.get("parallel")) and with_budgets)
            rows = bridge.df_rows(df)
        except BaseException as e:  # noqa: BLE001
            if isinstance(e, (KeyboardInterrupt, SystemExit, MemoryError)):
                raise
            return ("exc", "faulty-call", bridge.exc_symptom(e), f"{type(e).__name__}: {e}"[:200])
        n_obs, n_checks = clock.n, ip.checks
        follow = None
        if with_budgets and inj.get("kind"):
            ip.unknown_at = None
            try:
                df2 = man.inference(bridge.mk_queries(queries))
                follow = bridge.df_rows(df2)
            except BaseException as e:  # noqa: BLE001
                if isinstance(e, (KeyboardInterrupt, SystemExit, MemoryError)):
                    raise
                return ("exc", "follow-up-call", bridge.exc_symptom(e), f"{type(e).__name__}: {e}"[:200])
    return ("ok", rows, follow, n_obs, n_checks)


def judge(rows, refrows, where, inj, case, out, texts):
    flagged = unflagged = 0
    if len(rows) != len(refrows):
        out.append(obs(f"{where}|row-count", {"injection": inj, "rows": len(rows)}, case=dict(case, only=inj)))
        return 0, 0
    for i, (r, rr) in enumerate(zip(rows, refrows)):
        fl = bool(r["inference_timed_out"]) or bool(r["preprocessing_timed_out"])
        if fl:
            flagged += 1
            if bool(r["result"]) is not False:
                out.append(obs(f"{where}|flagged-but-True", {"injection": inj, "query": texts[i], "cfg": case["cfg"]},
                               case=dict(case, only=inj)))
        else:
            unflagged += 1
            if bool(r["result"]) != bool(rr["result"]):
                out.append(obs(f"{where}|unflagged-wrong-answer",
                               {"injection": inj, "query": texts[i], "got": bool(r["result"]),
                                "reference": bool(rr["result"]), "cfg": case["cfg"], "weakly": case["weakly"],
                                "budgets": case["budgets"]}, case=dict(case, only=inj)))
    return flagged, unflagged


def run_case(case, ctx):
    parts = gen.case_parts(case)
    atoms, base, queries = parts
    if not base or not queries:
        return []
    sem = ref.Sem(gen.all_atoms(atoms, base, queries), [(B, A) for _, B, A in base])
    if not ref.Model(sem, extended=case["weakly"]).ok:
        ctx.stratum("skipped:not-in-domain")
        return []
    texts = [fm.cond_text(B, A) for _, B, A in queries]
    if len(set(texts)) != len(texts):
        return []
    out = []
    cfg = case["cfg"]
    ctx.stratum(f"cfg:{cfg}|weakly={case['weakly']}")
    if case.get("searched"):
        ctx.stratum("source:lex-tie-search")
    if case.get("parallel"):
        ctx.stratum("parallel")
    r0 = run_once(case, parts, {}, with_budgets=False)
    if r0[0] == "exc":
        ctx.stratum("reference-run-raises")
        return []   # not a budget issue: C01-C07 own it
    refrows = r0[1]
    dry = run_once(case, parts, {})
    if dry[0] == "exc":
        out.append(obs(f"{dry[1]}|{dry[2]}", {"injection": None, "message": dry[3], "cfg": cfg, "budgets": case["budgets"]}))
        return out
    N, M = dry[3], dry[4]
    judge(dry[1], refrows, "no-fault", {}, case, out, texts)
    b = case["budgets"]
    nz = sorted({v for v in b.values() if v})
    jumps = sorted({nz[0] + 0.0005, (b["inf"] or nz[0]) + 0.0005, max(nz) + 1000.0})
    z3cfg = cfg.endswith("z3")
    per_query_deadline = bool(b["inf"] or b["total"])
    if case.get("only"):
        injections = [case["only"]]
    else:
        injections = [{"kind": "clock", "k": k, "jump": j} for k in range(1, N + 1) for j in jumps]
        if z3cfg and per_query_deadline and not case.get("parallel"):
            injections += [{"kind": "unknown", "j": j, "mode": m} for j in range(1, M + 1) for m in ("nomodel", "aftermodel")]
    ctx.extra["clock_observation_points"] = ctx.extra.get("clock_observation_points", 0) + N
    ctx.extra["optimize_check_points"] = ctx.extra.get("optimize_check_points", 0) + (M if z3cfg else 0)
    h = gen.case_hash(case)
    any_nt = False
    for inj in injections:
        ctx.ev(1)
        ctx.stratum(f"injection:{inj['kind']}")
        r = run_once(case, parts, inj)
        if r[0] == "exc":
            out.append(obs(f"{r[1]}|{inj['kind']}|{r[2]}",
                           {"injection": inj, "message": r[3], "cfg": cfg, "weakly": case["weakly"],
                            "budgets": b, "parallel": case.get("parallel")}, case=dict(case, only=inj)))
            continue
        fl, un = judge(r[1], refrows, "faulty-call", inj, case, out, texts)
        if r[2] is not None:
            fl2, _ = judge(r[2], refrows, "follow-up-call", inj, case, out, texts)
            if fl2:
                ctx.stratum("follow-up:rows-still-flagged")
        if fl:
            ctx.stratum("rows-flagged")
        if any(x["preprocessing_timed_out"] for x in r[1]):
            ctx.stratum("preprocessing-timed-out")
        if fl and un:
            any_nt = True
            ctx.nt(repr((h, sorted(inj.items()))))
            ctx.stratum("mixed-flagged-and-answered")
    if ctx.record and any_nt:
        ctx.sample({"cfg": cfg, "weakly": case["weakly"], "budgets": b, "parallel": case.get("parallel"),
                    "base": [f"{k}:{fm.cond_text(B, A)}" for k, B, A in base], "queries": texts,
                    "observation_points": N, "check_calls": M, "injections": len(injections)})
    return out


def shrink(case):
    for c in gen.shrink_candidates(case):
        c = gen.renumber(c)
        if c.get("only"):
            c = dict(c)
            c.pop("only")   # observation indices shift when the input shrinks: re-enumerate
        yield c
    if case.get("parallel"):
        c = dict(case)
        c["parallel"] = False
        yield c


def required_strata(tier):
    return ["source:lex-tie-search", "injection:clock", "injection:unknown", "rows-flagged", "preprocessing-timed-out",
            "mixed-flagged-and-answered", "parallel"] + [f"cfg:{c}|weakly={w}" for c, w in CFGS]
