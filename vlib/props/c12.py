"""C12 - answers depend only on meaning, not on presentation of the input."""

from hypothesis import strategies as st

from .. import bridge, fm, gen, rel
from ..core import obs
from .opsem import HarnessError

ID = "C12"
LEVEL = "exploration"
RULE = ("Metamorphic. Hypothesis draws a case (small strongly/weakly consistent generated bases, "
        "medium bases, shipped corpora) and a composition of 1-3 transformations: re-keying "
        "(0-based, sparse with gaps and large values, permuted), reordering conditionals, "
        "consistent atom renaming (any grammar identifier: long, digits/_/-, mixed case; at low "
        "weight names the library uses internally such as eta_1, mv_0), signature reordering / "
        "extension by unused atoms, replacing antecedents/consequents in base or query by "
        "equivalent formulas (double negation, De Morgan, commutation, association, distribution, "
        "absorption with Top/Bottom, tautological conjunct, idempotence), conditional-level "
        "rewrites preserving verification and falsification ((B|A)->(A,B|A), (B;!A|A)), clause-"
        "structure rewrites (conjunctive consequent b,c -> !(!b;!c); B -> B,(B;x)). A further source "
        "are 'distinguishing inputs' (vlib/hard.py: queries on which the System W / lexicographic "
        "procedure and a plausible wrong variant of it disagree, listed general rules first), each "
        "compared with three independent transformations (listing order / clause structure / "
        "rewritten duplicate, by kind) on the targeted operator's two back-ends. "
        "Equivalence of every rewrite is re-checked by truth table when the formula has <= 12 "
        "atoms. Oracle: every operator x back-end x mode gives the same answers before and after. "
        "evaluations = answers compared. non-trivial = the transformation changed the targeted "
        "aspect and the query is not decided by a short cut; distinct by (base, query, "
        "transformation list, cfg).")
ASSUMPTIONS = ["no independent oracle needed; equivalence of rewrites re-checked by truth table",
               "keys are distinct Python ints as in the BeliefBase docstring"]
TECHNIQUE = "metamorphic property-based testing (presentation-changing, meaning-preserving transformations)"

CFGS = ["p", "z", "w-rc2", "w-z3", "lex-rc2", "lex-z3", "c"]
TRANSFORMS = ["equiv:flatten", "equiv:clausal", "equiv:duplicate", "rekey:zero", "rekey:sparse", "rekey:gap", "rekey:permuted", "reorder", "reorder:specific-first", "rename", "rename:internal",
              "signature", "equiv:base", "equiv:query", "condrewrite"]
INTERNAL = ["eta_1", "eta_2", "mv_0", "mf_1", "mv_1", "gamma-_1", "eta_3"]


def budget(tier):
    return {"examples": 600 if tier == "quick" else 5000, "hard_examples": 320 if tier == "quick" else 3200,
            "soft_seconds": 300 if tier == "quick" else 3000}


def _search3(seed):
    from .. import search as S
    c = S.three_layer_search(seed | 1 if seed % 3 == 0 else seed)   # start from a non-'specific first' listing
    return c


def _searchws(seed):
    """world-set family (multi-clause conditionals, cost-order-sensitive queries): rewriting the
    conditionals changes their clause sets but not their meaning"""
    from .. import search as S
    feat = ["superset-before-subset", "min-card-set-after-larger"][seed % 2]
    return S.worldset_search(seed, feat, max_candidates=6000, need_lex_tie=(seed % 2 == 1))


def _hard(seed):
    """distinguishing inputs for the System W / lexicographic procedures (vlib/hard.py): the answer
    on them is decided by one particular step of the procedure, so a presentation-dependent slip in
    that step shows as a changed answer"""
    from .. import hard
    # kinds whose wrong variant is about presentation (clause structure, duplicates, listing order) weigh more
    kinds = hard.KINDS + hard.COST_KINDS + ["lex:dedupe", "lex:dedupe", "w:tie-set-leaks-down", "w:tie-set-leaks-down",
                                            "lex:flip-below-tie", "w:flip-below-tie"]
    return hard.any_kind(seed, kinds=kinds, order="general")


def _layered():
    @st.composite
    def go(draw):
        atoms, conds = draw(gen.layered_base(3, 5, 7))
        return gen.mk_case(atoms, conds, draw(gen.query_list(atoms, conds, 2, 4)))
    return go()


@st.composite
def _case(draw, tier):
    q = tier == "quick"
    c = dict(draw(st.one_of(
        gen.strong_case(1, 4, 5, qlo=2, qhi=4),
        _layered(),
        st.integers(0, 2**40).map(_search3),
        st.integers(0, 2**40).map(_search3),
        st.integers(0, 2**40).map(_searchws),
        gen.weak_case(1, 4, 5, qlo=2, qhi=4),
        rel.medium_case(8, 16 if q else 40, 16 if q else 40, nq=3),
        rel.corpus_case(20 if q else 100, 20 if q else 100, nq=2),
    )))
    return _finish(draw, c)


def _finish(draw, c):
    k = draw(st.integers(1, 3))
    ts = [draw(gen._weighted([(t, 2 if t == "rename:internal" else 6) for t in TRANSFORMS])) for _ in range(k)]
    if c.get("searched") in ("superset-before-subset", "min-card-set-after-larger"):
        ts = ["equiv:base"] + ts[:1]
    if c.get("searched") == "three-layer-tie":
        ts = [draw(st.sampled_from(["reorder:specific-first", "reorder:specific-first", "reorder"]))] + ts[:1]
    kind = str(c.get("searched", ""))
    if kind.startswith(("w:", "lex:")):
        # several independent transformations of the same distinguishing input
        from .. import hard
        third = draw(st.sampled_from(["rekey:permuted", "equiv:base", "equiv:clausal", "rekey:zero", "condrewrite"]))
        if kind in hard.COST_KINDS:
            c["variants"] = [["equiv:flatten"], ["equiv:clausal", "reorder"], ["reorder:specific-first", third]]
        elif kind == "lex:dedupe":
            c["variants"] = [["equiv:duplicate"], ["equiv:duplicate", "rekey:permuted"], ["reorder:specific-first", third]]
        else:
            c["variants"] = [["reorder:specific-first"], ["reorder"], [third]]
        ts = c["variants"][0]
    c["transforms"] = ts
    c["tseed"] = draw(st.integers(0, 2**32))
    return c


@st.composite
def _hard_case(draw):
    return _finish(draw, dict(draw(st.integers(0, 2**40).map(_hard))))


def hard_strategy(tier):
    return _hard_case()


def strategy(tier):
    return _case(tier)


# --------------------------------------------------------------------------------------
# transformations on (atoms, base, queries)
# --------------------------------------------------------------------------------------

def equiv_rewrite(f, rnd, atoms):
    """a formula equivalent to f, changed at one random position"""
    subs = list(fm.subformulas(f))
    target = rnd.choice(subs)

    def rw(g):
        t = g[0]
        opts = ["dneg", "top", "bot", "taut", "idem"]
        if t in ("a", "o"):
            opts += ["demorgan", "comm", "comm"]
            if g[1][0] == t or g[2][0] == t:
                opts.append("assoc")
            if t == "a" and g[2][0] == "o":
                opts.append("distr")
            if t == "o" and g[2][0] == "a":
                opts.append("distr")
        o = rnd.choice(opts)
        if o == "dneg":
            return fm.Not(fm.Not(g))
        if o == "top":
            return fm.And(g, fm.T) if rnd.random() < 0.5 else fm.And(fm.T, g)
        if o == "bot":
            return fm.Or(g, fm.F) if rnd.random() < 0.5 else fm.Or(fm.F, g)
        if o == "taut":
            x = fm.V(rnd.choice(atoms))
            return fm.And(g, fm.Or(x, fm.Not(x)))
        if o == "idem":
            return fm.And(g, g) if rnd.random() < 0.5 else fm.Or(g, g)
        if o == "demorgan":
            d = "o" if t == "a" else "a"
            return fm.Not((d, fm.Not(g[1]), fm.Not(g[2])))
        if o == "comm":
            return (t, g[2], g[1])
        if o == "assoc":
            if g[1][0] == t:
                return (t, g[1][1], (t, g[1][2], g[2]))
            return (t, (t, g[1], g[2][1]), g[2][2])
        if o == "distr":
            d = g[2][0]
            return (d, (t, g[1], g[2][1]), (t, g[1], g[2][2]))
        raise AssertionError(o)

    done = [False]

    def go(g):
        if g is target and not done[0]:
            done[0] = True
            return rw(g)
        if g[0] == "n":
            return ("n", go(g[1]))
        if g[0] in ("a", "o"):
            l = go(g[1])
            r = go(g[2])
            return (g[0], l, r)
        return g

    h = go(f)
    ats = sorted(set(fm.atoms_of(f)) | set(fm.atoms_of(h)))
    if len(ats) <= 12 and fm.tt(f, ats) != fm.tt(h, ats):
        raise HarnessError(f"rewrite not equivalence preserving: {fm.to_cl(f)} -> {fm.to_cl(h)}")
    return h


def _conjuncts(g):
    return _conjuncts(g[1]) + _conjuncts(g[2]) if g[0] == "a" else [g]


def fresh_names(rnd, k, avoid):
    out = []
    pool = ["Bird", "x1", "LongAtomNameNumber17", "q_r", "a-b", "Zz9", "atom_with_underscores", "P", "k2-z",
            "tweety", "w00t", "AbC", "n-1", "s_t_u", "M1"]
    rnd.shuffle(pool)
    for n in pool:
        if n not in avoid and len(out) < k:
            out.append(n)
    i = 0
    while len(out) < k:
        n = f"ren{i}"
        i += 1
        if n not in avoid:
            out.append(n)
    return out


def apply_transform(t, atoms, base, queries, rnd):
    """-> (atoms, base, queries, changed: bool)"""
    if t.startswith("rekey"):
        keys = [k for k, _, _ in base]
        if t == "rekey:zero":
            new = list(range(len(keys)))
        elif t == "rekey:gap":
            skip = rnd.randint(1, len(keys))        # 1..n+1 without one value: contains n+1 unless skip == n+1
            new = [k for k in range(1, len(keys) + 2) if k != skip]
        elif t == "rekey:sparse":
            new = sorted(rnd.sample(range(2, 5000), len(keys)))
            if rnd.random() < 0.3:
                new[-1] = 10**9 + rnd.randint(0, 9)
        else:
            new = list(keys)
            rnd.shuffle(new)
        return atoms, [(n, B, A) for n, (_, B, A) in zip(new, base)], queries, new != keys
    if t == "reorder":
        b = list(base)
        rnd.shuffle(b)
        return atoms, b, queries, b != base
    if t == "reorder:specific-first":
        # conditionals of higher tolerance layers first (listing order and keys both permuted)
        from .. import ref
        if len(gen.all_atoms(atoms, base, [])) > 8:
            return atoms, base, queries, False
        sem = ref.Sem(gen.all_atoms(atoms, base, []), [(B, A) for _, B, A in base])
        M = ref.Model(sem, extended=True)
        if not M.ok:
            return atoms, base, queries, False
        lay = {j: M.layer_of.get(j, len(M.layers)) for j in range(len(base))}
        order = sorted(range(len(base)), key=lambda j: -lay[j])
        b = [base[j] for j in order]
        return atoms, b, queries, b != base
    if t.startswith("rename"):
        allat = gen.all_atoms(atoms, base, queries)
        if t == "rename:internal":
            k = min(len(allat), rnd.randint(1, 2))
            internal = rnd.sample(INTERNAL, k)
            names = internal + fresh_names(rnd, len(allat) - k, set(internal))
            rnd.shuffle(names)
        else:
            names = fresh_names(rnd, len(allat), set())
        mp = dict(zip(allat, names))
        return ([mp[a] for a in atoms], [(k, fm.rename(B, mp), fm.rename(A, mp)) for k, B, A in base],
                [(k, fm.rename(B, mp), fm.rename(A, mp)) for k, B, A in queries], True)
    if t == "signature":
        a = list(atoms)
        rnd.shuffle(a)
        extra = [f"unused{i}" for i in range(rnd.randint(0, 3))]
        pos = rnd.randint(0, len(a))
        a = a[:pos] + extra + a[pos:]
        return a, base, queries, a != atoms
    if t == "equiv:flatten":
        # every conjunctive consequent b,c,... becomes !(!b;!c;...) (no longer one clause per conjunct)
        items = [(k, fm.Not(fm.disj([fm.Not(g) for g in _conjuncts(B)])) if B[0] == "a" else B, A) for k, B, A in base]
        for (k, B, A), (_, B2, _) in zip(base, items):
            ats = sorted(set(fm.atoms_of(B)))
            if len(ats) <= 12 and fm.tt(B, ats) != fm.tt(B2, ats):
                raise HarnessError(f"flatten not equivalence preserving: {fm.to_cl(B)} -> {fm.to_cl(B2)}")
        return atoms, items, queries, items != list(base)
    if t == "equiv:clausal":
        # same meaning, different clause structure: a conjunctive consequent becomes the negation
        # of a disjunction (one Tseitin-defined literal instead of one clause per conjunct), a
        # plain consequent B becomes B,(B;x) (two clauses instead of one)
        items = []
        ch = False
        mode = rnd.choice(["flatten", "flatten", "inflate", "both"])
        for k, B, A in base:
            conj = B[0] == "a"
            if (conj and mode != "inflate") or (not conj and mode != "flatten" and rnd.random() < 0.5):
                if conj:
                    B2 = fm.Not(fm.disj([fm.Not(g) for g in _conjuncts(B)]))
                else:
                    B2 = fm.And(B, fm.Or(B, gen.r_literal(rnd, atoms)))
                ats = sorted(set(fm.atoms_of(B)) | set(fm.atoms_of(B2)))
                if len(ats) <= 12 and fm.tt(B, ats) != fm.tt(B2, ats):
                    raise HarnessError(f"clausal rewrite not equivalence preserving: {fm.to_cl(B)} -> {fm.to_cl(B2)}")
                items.append((k, B2, A))
                ch = True
            else:
                items.append((k, B, A))
        return atoms, items, queries, ch
    if t == "equiv:duplicate":
        # one copy of an exactly duplicated conditional is rewritten (same verification and
        # falsification sets); a base without a duplicate first gets one appended on BOTH sides,
        # which is done by the caller through case["dup"]
        texts = [fm.cond_text(B, A) for _, B, A in base]
        dups = [i for i, tx in enumerate(texts) if texts.count(tx) >= 2]
        if not dups:
            return atoms, base, queries, False
        i = rnd.choice(dups)
        k, B, A = base[i]
        items = list(base)
        items[i] = (k, equiv_rewrite(B, rnd, atoms), A) if rnd.random() < 0.6 else (k, B, equiv_rewrite(A, rnd, atoms))
        return atoms, items, queries, True
    if t in ("equiv:base", "equiv:query"):
        items = list(base if t == "equiv:base" else queries)
        if not items:
            return atoms, base, queries, False
        for _ in range(rnd.randint(1, 3)):
            i = rnd.randrange(len(items))
            k, B, A = items[i]
            if rnd.random() < 0.5:
                B = equiv_rewrite(B, rnd, atoms)
            else:
                A = equiv_rewrite(A, rnd, atoms)
            items[i] = (k, B, A)
        return (atoms, items, queries, True) if t == "equiv:base" else (atoms, base, items, True)
    if t == "condrewrite":
        which = rnd.random() < 0.7
        items = list(base if which else queries)
        if not items:
            return atoms, base, queries, False
        i = rnd.randrange(len(items))
        k, B, A = items[i]
        B2 = fm.And(A, B) if rnd.random() < 0.5 else fm.Or(B, fm.Not(A))
        items[i] = (k, B2, A)
        return (atoms, items, queries, True) if which else (atoms, base, items, True)
    raise AssertionError(t)


def reset_env():
    from pysmt.environment import reset_env as r
    env = r()
    env.enable_infix_notation = True  # what importing pysmt.shortcuts sets on the first environment


def run_case(case, ctx):
    m = rel.materialise(case, weak_ok=True)
    if m is None:
        ctx.stratum("skipped:unusable")
        return []
    atoms, base, queries = m
    if not queries or not base:
        return []
    texts0 = [fm.cond_text(B, A) for _, B, A in base]
    allts = [t for ts in (case.get("variants") or [case.get("transforms", [])]) for t in ts]
    if "equiv:duplicate" in allts and len(base) <= 12 and len(set(texts0)) == len(texts0):
        # the ORIGINAL base carries an exact duplicate of one of its conditionals (a legal base)
        j = case.get("tseed", 0) % len(base)
        base = list(base) + [(max(k for k, _, _ in base) + 1, base[j][1], base[j][2])]
    from inference.consistency_sat import consistency_indices
    part, _ = consistency_indices(bridge.mk_bb(atoms, base), "z3", True)
    if part is False:
        return []
    strongly = not part[-1]
    variants = case.get("variants") or [case.get("transforms", [])]
    hardkind = str(case.get("searched", "")) if str(case.get("searched", "")).startswith(("w:", "lex:")) else None
    internal = any(t == "rename:internal" for ts in variants for t in ts)
    src = case.get("family") or ("medium" if case.get("medium") else "small")
    ctx.stratum(f"source:{src}")
    out = []
    modes = [False, True] if strongly else [True]
    cfgs = [c for c in CFGS if not (c == "c" and len(base) > 20)]
    if hardkind:
        # a distinguishing input targets one operator: both of its back-ends, both modes
        ctx.stratum("source:distinguishing-input")
        ctx.extra["reference_only_candidates"] = ctx.extra.get("reference_only_candidates", 0) + case.get("tried", 0)
        op = hardkind.split(":")[0]
        cfgs = [f"{op}-rc2", f"{op}-z3"]
    R1 = rel.Runner(atoms, base, queries)
    before = {}
    for weakly in modes:
        for cfg in cfgs:
            if cfg == "c" and weakly:
                continue
            before[(cfg, weakly)] = R1.get(cfg, weakly)
    if internal:
        reset_env()
    try:
        for vi, ts in enumerate(variants):
            rnd = gen.rng(case.get("tseed", 0) + vi)
            a2, b2, q2 = list(atoms), list(base), list(queries)
            changed = False
            for t in ts:
                a2, b2, q2, ch = apply_transform(t, a2, b2, q2, rnd)
                changed = changed or ch
                ctx.stratum(f"transform:{t}")
            bid = gen.case_hash([case.get("corpus"), [[k, fm.to_json(B), fm.to_json(A)] for k, B, A in base], ts,
                                 case.get("tseed"), vi])
            btxt = [f"{kk}:{fm.cond_text(b, a)}" for kk, b, a in b2][:30]
            R2 = rel.Runner(a2, b2, q2)
            for (cfg, weakly), r1 in before.items():
                r2 = R2.get(cfg, weakly)
                if r1[0] == "exc":
                    ctx.ev(1)
                    # the untransformed input already fails: that is C01-C07's business
                    ctx.stratum("original-raises")
                    continue
                if r2[0] == "exc":
                    ctx.ev(1)
                    clash = internal and "PysmtTypeError" in r2[1]
                    out.append(obs(f"{cfg}|weakly={weakly}|{r2[1]}",
                                   {"transforms": ts, "message": r2[2], "base_after": btxt,
                                    "internal_name_clash": clash}))
                    continue
                for i, ((k, B, A), (_, B2, A2)) in enumerate(zip(queries, q2)):
                    ctx.ev(1)
                    if changed and rel_nonvacuous(B, A):
                        ctx.nt(repr((bid, i, cfg, weakly)))
                    if bool(r1[1][i]) != bool(r2[1][i]):
                        out.append(obs(f"{cfg}|weakly={weakly}|answer-changed",
                                       {"transforms": ts, "query_before": fm.cond_text(B, A),
                                        "query_after": fm.cond_text(B2, A2), "before": bool(r1[1][i]),
                                        "after": bool(r2[1][i]), "base_after": btxt,
                                        "base_before": [f"{kk}:{fm.cond_text(b, a)}" for kk, b, a in base][:30]}))
            if ctx.record and len(base) >= 2 and vi == 0:
                ctx.sample({"source": src, "transforms": ts,
                            "base_before": [f"{kk}:{fm.cond_text(b, a)}" for kk, b, a in base][:6],
                            "base_after": btxt[:6], "signature_after": a2[:10]})
    finally:
        if internal:
            reset_env()
    return out


def rel_nonvacuous(B, A):
    ats = sorted(set(fm.atoms_of(A)) | set(fm.atoms_of(B)))
    if len(ats) > 12:
        return True
    a, b = fm.tt(A, ats), fm.tt(B, ats)
    return bool(a & b) and bool(a & ~b & fm.full(len(ats)))


def shrink(case):
    vs = case.get("variants") or []
    if len(vs) > 1:
        for v in vs:
            c = dict(case)
            c["variants"] = [v]
            c["transforms"] = v
            yield c
    elif len(vs) == 1 and len(vs[0]) > 1:
        for i in range(len(vs[0])):
            c = dict(case)
            c["variants"] = [vs[0][:i] + vs[0][i + 1:]]
            yield c
    ts = case.get("transforms", [])
    if len(ts) > 1:
        for i in range(len(ts)):
            c = dict(case)
            c["transforms"] = ts[:i] + ts[i + 1:]
            yield c
    if case.get("corpus"):
        return
    for c in gen.shrink_candidates(case):
        c = gen.renumber(c)
        yield c


def required_strata(tier):
    return [f"transform:{t}" for t in TRANSFORMS] + ["source:small", "source:medium", "source:random_large", "source:distinguishing-input"]
