"""C15 - CNF encodings are faithful and correction-set enumeration is exact."""

import itertools

from hypothesis import strategies as st

from .. import bridge, engines, fm, gen
from ..core import obs

ID = "C15"
LEVEL = "exploration"
RULE = ("Hypothesis-generated *arbitrary* bases (no consistency requirement; formulas of every "
        "shape, depth <= 5, repeated atoms, Top/Bottom in every position, tautologies, "
        "contradictions) sharing one epistemic_state, plus queries. Part 1: for every "
        "verification / falsification / non-falsification clause set and EVERY complete "
        "assignment to the atoms, satisfiability of clauses + unit assumptions (plain minisat22, "
        "auxiliary variables free) is compared with the truth table; evaluations counts these "
        "(clause set, assignment) pairs (assignments exhaustive per formula). Part 2: drawn "
        "scenarios (leading verification/falsification of a query or conditional, optional fixed "
        "conditionals, soft subset S, ignore = rest, SAT engine rotated over all usable engines): "
        "minimal_correction_subsets compared as a set of sets without duplicates with the "
        "inclusion-minimal members of {falsified subset of S : w satisfies the hard part} from "
        "world enumeration. non-trivial = clause set with >=2 clauses or a constant (part 1), "
        "family with >=2 minimal sets or a multi-clause soft group (part 2); distinct by "
        "(formula text, kind) resp. scenario masks.")
ASSUMPTIONS = ["pysat minisat22 as the independent plain SAT solver", "CPython, Hypothesis",
               "variable ids of atoms are read from the id pool by atom name"]
NEEDS_ENGINES = True
TECHNIQUE = "property-based testing: exhaustive assignments per generated formula vs truth table; brute-force minimal falsification sets"


def budget(tier):
    return {"examples": 6000 if tier == "quick" else 40000,
            "soft_seconds": 200 if tier == "quick" else 2000}


@st.composite
def _case(draw, tier):
    atoms = draw(gen.atoms_st(1, 4 if tier == "quick" else 5))
    conds = draw(gen.raw_base(atoms, 5, consts=True, unfals=True))
    if draw(st.integers(0, 3)) == 0:
        conds = gen.repair_strong(atoms, conds)
    # a few deliberately deep formulas
    if draw(st.integers(0, 2)) == 0:
        conds.append((draw(gen.deep_formula(atoms, max_leaves=10)), draw(gen.deep_formula(atoms, max_leaves=10))))
    qs = draw(gen.query_list(atoms, conds, 1, 3, outside=False))
    case = gen.mk_case(atoms, conds, qs)
    m = len(conds)
    scen = []
    for _ in range(draw(st.integers(2, 5))):
        lead_q = draw(st.booleans())
        lead = ["q", draw(st.integers(0, len(qs) - 1))] if lead_q else ["c", draw(st.integers(1, m))]
        lead.append(draw(st.sampled_from(["v", "f"])))
        keys = list(range(1, m + 1))
        if not lead_q and draw(st.booleans()):
            keys.remove(lead[1])
        soft = [k for k in keys if draw(st.integers(0, 3)) > 0]
        rest = [k for k in keys if k not in soft]
        fixed = {}
        for k in rest:
            if draw(st.integers(0, 2)) == 0:
                fixed[str(k)] = draw(st.sampled_from(["f", "nf"]))
        scen.append({"lead": lead, "soft": soft, "fixed": fixed})
    case["scen"] = scen
    case["engine"] = draw(st.integers(0, 63))
    return case


def strategy(tier):
    return _case(tier)


def _atom_ids(pool):
    import z3
    ids = {}
    for o, i in pool.obj2id.items():
        if isinstance(o, z3.ExprRef) and z3.is_const(o) and o.decl().kind() == z3.Z3_OP_UNINTERPRETED:
            ids[o.decl().name()] = i
    return ids


def _sat(cnf, assumptions):
    from pysat.solvers import Minisat22
    with Minisat22(bootstrap_with=cnf) as s:
        return s.solve(assumptions=assumptions)


def run_case(case, ctx):
    from pysat.formula import WCNF
    L = bridge.lib()
    from inference.optimizer import create_optimizer
    from inference.tseitin_transformation import TseitinTransformation
    atoms, base, queries = gen.case_parts(case)
    if not base:
        return []
    allat = gen.all_atoms(atoms, base, queries)
    n = len(allat)
    full = fm.full(n)
    eng = engines.usable()
    ename = "rc2" if case.get("engine", 0) % (len(eng) + 1) == len(eng) else "rc2-" + eng[case.get("engine", 0) % (len(eng) + 1)]
    ctx.stratum(f"engine:{ename}")
    ctx.extra["engines_usable"] = list(eng)
    bb = bridge.mk_bb(atoms, base)
    es = {"belief_base": bb, "pmaxsat_solver": ename}
    out = []
    try:
        tt = TseitinTransformation(es)
        tt.belief_base_to_cnf(True, True, True)
        qcnf = [tt.query_to_cnf(bridge.mk_cond(B, A)) for _, B, A in queries]
    except BaseException as e:  # noqa: BLE001
        return [obs(f"cnf|{bridge.exc_symptom(e)}", {"message": str(e)[:200]})]
    ids = _atom_ids(es["pool"])
    masks = {}
    for k, B, A in base:
        a, b = fm.tt(A, allat), fm.tt(B, allat)
        masks[k] = {"v": a & b, "f": a & ~b & full, "nf": (~a | b) & full}
    sets = []
    for k, B, A in base:
        txt = fm.cond_text(B, A)
        sets.append((f"v:{txt}", es["v_cnf_dict"][k], masks[k]["v"]))
        sets.append((f"f:{txt}", es["f_cnf_dict"][k], masks[k]["f"]))
        sets.append((f"nf:{txt}", es["nf_cnf_dict"][k], masks[k]["nf"]))
    qmasks = []
    for (k, B, A), (cv, cf) in zip(queries, qcnf):
        a, b = fm.tt(A, allat), fm.tt(B, allat)
        qmasks.append({"v": a & b, "f": a & ~b & full})
        txt = fm.cond_text(B, A)
        sets.append((f"qv:{txt}", cv, a & b))
        sets.append((f"qf:{txt}", cf, a & ~b & full))
    # ---- part 1: faithfulness under every assignment --------------------------------
    for name, cnf, mask in sets:
        bad = None
        for w in range(1 << n):
            assum = []
            for i, at in enumerate(allat):
                if at in ids:
                    assum.append(ids[at] if (w >> i) & 1 else -ids[at])
            got = _sat(cnf, assum)
            ctx.ev(1)
            if got != bool((mask >> w) & 1):
                bad = (w, got)
                break
        flat = [l for c in cnf for l in c]
        if len(cnf) >= 2 or "Top" in name or "Bottom" in name:
            ctx.nt("p1:" + name)
        if len(cnf) >= 2:
            ctx.stratum("p1:multi-clause")
        if any(abs(l) not in ids.values() for l in flat):
            ctx.stratum("p1:aux-variable")
        if "Top" in name or "Bottom" in name:
            ctx.stratum("p1:constant")
        if mask == 0:
            ctx.stratum("p1:contradiction")
        if mask == full:
            ctx.stratum("p1:tautology")
        if bad is not None:
            w, got = bad
            out.append(obs(f"cnf|unfaithful:{name.split(':')[0]}",
                           {"set": name, "cnf": cnf, "assignment": {at: bool((w >> i) & 1) for i, at in enumerate(allat)},
                            "sat_with_assignment": got, "truth": bool((mask >> w) & 1)}))
    # ---- part 2: exact enumeration ------------------------------------------------------
    keys = [k for k, _, _ in base]
    for sc in case.get("scen", []):
        lead = sc["lead"]
        soft = [k for k in sc["soft"] if k in keys]
        fixed = {int(k): v for k, v in sc["fixed"].items() if int(k) in keys and int(k) not in soft}
        if lead[0] == "q":
            if lead[1] >= len(queries):
                continue
            hard_cnf = qcnf[lead[1]][0 if lead[2] == "v" else 1]
            hard_mask = qmasks[lead[1]][lead[2]]
        else:
            if lead[1] not in keys:
                continue
            hard_cnf = es[f"{lead[2]}_cnf_dict"][lead[1]]
            hard_mask = masks[lead[1]][lead[2]]
            soft = [k for k in soft if k != lead[1]]
        wcnf = WCNF()
        for c in hard_cnf:
            wcnf.append(c)
        for k, kind in fixed.items():
            for c in es[f"{kind}_cnf_dict"][k]:
                wcnf.append(c)
            hard_mask &= masks[k][kind]
        for k in soft:
            for c in es["nf_cnf_dict"][k]:
                wcnf.append(c, weight=1)
        ignore = [k for k in keys if k not in soft]
        fam = set()
        for w in fm.worlds_of(hard_mask):
            fam.add(frozenset(k for k in soft if (masks[k]["f"] >> w) & 1))
        expected = {s for s in fam if not any(t < s for t in fam)}
        # the same enumeration under further engines (all usable ones in the thorough tier)
        others = list(eng) if ctx.tier == "thorough" else [eng[(case.get("engine", 0) + 7 * i) % len(eng)] for i in (1, 2)]
        engine_results = {}
        for e2 in others:
            es2 = dict(es, pmaxsat_solver="rc2-" + e2)
            ctx.ev(1)
            try:
                engine_results[e2] = {frozenset(x) for x in create_optimizer(es2).minimal_correction_subsets(wcnf.copy(), ignore=list(ignore))}
            except BaseException as e:  # noqa: BLE001
                import os as _os
                if _os.sep + "pysat" + _os.sep in bridge.exc_origin(e):
                    # raised inside the third-party engine wrapper under this one engine: the engine is
                    # not usable on this instance (recorded, not judged; the main engine is judged below)
                    ctx.stratum(f"third-party-engine-failure:{e2}")
                else:
                    out.append(obs(f"mcs|{bridge.exc_symptom(e)}", {"message": str(e)[:200], "scenario": sc, "engine": e2}))
        ctx.ev(1)
        try:
            if not ignore:
                ctx.stratum("p2:default-ignore-argument")
                got = create_optimizer(es).minimal_correction_subsets(wcnf)
            else:
                got = create_optimizer(es).minimal_correction_subsets(wcnf, ignore=ignore)
        except BaseException as e:  # noqa: BLE001
            out.append(obs(f"mcs|{bridge.exc_symptom(e)}", {"message": str(e)[:200], "scenario": sc}))
            continue
        gots = [frozenset(x) for x in got]
        for e2, r2 in engine_results.items():
            if r2 != expected:
                out.append(obs("mcs|engine-specific", {"scenario": sc, "engine": "rc2-" + e2,
                                                       "expected": sorted(sorted(s) for s in expected),
                                                       "got": sorted(sorted(s) for s in r2),
                                                       "base": [f"{k}:{fm.cond_text(B, A)}" for k, B, A in base]}))
        if len(expected) >= 2 or any(len(es["nf_cnf_dict"][k]) >= 2 for k in soft):
            ctx.nt(repr(("p2", hard_mask, tuple(sorted((k, masks[k]["f"]) for k in soft)))))
        ctx.stratum(f"p2:minimal-sets={min(len(expected), 3)}")
        if not fam:
            ctx.stratum("p2:hard-unsat")
        detail = {"scenario": sc, "engine": ename, "expected": sorted(sorted(s) for s in expected),
                  "got": [sorted(x) for x in got], "base": [f"{k}:{fm.cond_text(B, A)}" for k, B, A in base],
                  "queries": [fm.cond_text(B, A) for _, B, A in queries]}
        if len(gots) != len(set(gots)):
            out.append(obs("mcs|duplicate-set", detail))
        elif set(gots) != expected:
            kind = "missing" if expected - set(gots) else "extra"
            if not fam:
                kind = "nonempty-for-unsat-hard"
            out.append(obs(f"mcs|{kind}", detail))
    if ctx.record and len(base) >= 2:
        ctx.sample({"base": [f"{k}:{fm.cond_text(B, A)}" for k, B, A in base],
                    "clause_sets": {nm: cnf for nm, cnf, _ in sets[:3]}, "scenarios": case.get("scen", [])[:2]})
    return out


def shrink(case):
    for c in gen.shrink_candidates(case):
        yield gen.renumber(c)
    sc = case.get("scen", [])
    if len(sc) > 1:
        for i in range(len(sc)):
            c = dict(case)
            c["scen"] = [sc[i]]
            yield c
    if sc:
        c = dict(case)
        c["scen"] = []
        yield c


def required_strata(tier):
    return ["p1:multi-clause", "p1:aux-variable", "p1:constant", "p1:contradiction", "p1:tautology",
            "p2:minimal-sets=0", "p2:minimal-sets=1", "p2:minimal-sets=2", "p2:minimal-sets=3", "p2:hard-unsat"]
