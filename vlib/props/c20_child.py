"""fresh-interpreter side of C20: load a saved ranking object and report its behaviour"""
import json
import os
import sys
import warnings

warnings.filterwarnings("ignore")
os.environ.setdefault("INFOCF_LOGLEVEL", "ERROR")
from vlib import bridge, fm  # noqa: E402


def main():
    path, qpath, order = sys.argv[1], sys.argv[2], sys.argv[3]
    bridge.lib()
    from inference.preocf import PreOCF
    ocf = PreOCF.load_ocf(path, trusted=True)
    qs = json.load(open(qpath))
    stored = dict(ocf.ranks)
    worlds = sorted(ocf.ranks.keys(), reverse=(order == "desc"))
    ranks = {}
    err = None
    try:
        for w in worlds:
            if ocf.ranking_system == "custom" and ocf.ranks[w] is None:
                ranks[w] = None     # a custom object has no way to compute a missing rank
                continue
            ranks[w] = ocf.rank_world(w)
        verdicts = [bool(ocf.conditional_acceptance(bridge.mk_cond(fm.from_json(B), fm.from_json(A)))) for B, A in qs]
    except BaseException as e:  # noqa: BLE001
        err = f"{type(e).__name__}: {e}"[:300]
        verdicts = None
    print("RESULT " + json.dumps({"signature": list(ocf.signature), "stored": stored, "ranks": ranks,
                                  "impacts": getattr(ocf, "_impacts", None), "verdicts": verdicts,
                                  "metadata_keys": sorted(map(str, ocf.metadata.keys())), "error": err,
                                  "ranking_system": ocf.ranking_system}))


main()
