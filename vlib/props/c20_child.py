"""fresh-interpreter sides of C20.

consume <pkl> <queries.json> <asc|desc> : load a saved ranking object and report its behaviour
produce <case.json> <out.pkl>           : build the object of a C20 case in THIS fresh process, use
                                          it (rank the 'pre' worlds, ask the queries), save it, and
                                          report impacts and completed ranks
"""
import json
import os
import sys
import warnings

warnings.filterwarnings("ignore")
os.environ.setdefault("INFOCF_LOGLEVEL", "ERROR")
from vlib import bridge, fm  # noqa: E402


def world_str(w, n):
    return "".join("1" if (w >> i) & 1 else "0" for i in range(n))


def build_object(case):
    from inference.preocf import PreOCF
    atoms = case["atoms"]
    n = len(atoms)
    kind = case["kind"]
    meta = json.loads(json.dumps(case.get("meta", {})))
    if kind == "custom":
        return PreOCF.init_custom({world_str(w, n): case["ranks"][w] for w in range(1 << n) if case["ranks"][w] is not None},
                                  signature=list(atoms), metadata=meta)
    base = [(k, fm.from_json(B), fm.from_json(A)) for k, B, A in case["base"]]
    bb = bridge.mk_bb(atoms, base)
    if kind == "z":
        return PreOCF.init_system_z(bb, metadata=meta, extended=case.get("extended", False))
    return PreOCF.init_random_min_c_rep(bb, metadata=meta)


def consume(path, qpath, order):
    from inference.preocf import PreOCF
    ocf = PreOCF.load_ocf(path, trusted=True)
    qs = json.load(open(qpath))
    if order == "desc":
        qs_order = list(reversed(range(len(qs))))
    else:
        qs_order = list(range(len(qs)))
    stored = dict(ocf.ranks)
    worlds = sorted(ocf.ranks.keys(), reverse=(order == "desc"))
    ranks = {}
    err = None
    verdicts = [None] * len(qs)
    try:
        # the queries are built (and asked) in this process's own order, before anything else
        for i in qs_order:
            B, A = qs[i]
            verdicts[i] = bool(ocf.conditional_acceptance(bridge.mk_cond(fm.from_json(B), fm.from_json(A))))
        for w in worlds:
            if ocf.ranking_system == "custom" and ocf.ranks[w] is None:
                ranks[w] = None     # a custom object has no way to compute a missing rank
                continue
            ranks[w] = ocf.rank_world(w)
    except BaseException as e:  # noqa: BLE001
        err = f"{type(e).__name__}: {e}"[:300]
        verdicts = None
    print("RESULT " + json.dumps({"signature": list(ocf.signature), "stored": stored, "ranks": ranks,
                                  "impacts": getattr(ocf, "_impacts", None), "verdicts": verdicts,
                                  "metadata_keys": sorted(map(str, ocf.metadata.keys())), "error": err,
                                  "ranking_system": ocf.ranking_system}))


def produce(casepath, out):
    case = json.load(open(casepath))
    n = len(case["atoms"])
    ocf = build_object(case)
    for w in case.get("pre", []):
        ws = world_str(w % (1 << n), n)
        if ws in ocf.ranks and not (case["kind"] == "custom" and ocf.ranks[ws] is None):
            ocf.rank_world(ws)
    asked = []
    for B, A in case["queries"]:
        try:
            asked.append(bool(ocf.conditional_acceptance(bridge.mk_cond(fm.from_json(B), fm.from_json(A)))))
        except BaseException:  # noqa: BLE001
            asked.append(None)
    ocf.save_ocf(out)
    snapshot = dict(ocf.ranks)
    full = {}
    for w in sorted(ocf.ranks):
        if case["kind"] == "custom" and ocf.ranks[w] is None:
            continue
        full[w] = ocf.rank_world(w)
    print("RESULT " + json.dumps({"impacts": getattr(ocf, "_impacts", None), "full": full, "stored": snapshot,
                                  "asked": asked}))


if __name__ == "__main__":
    bridge.lib()
    if sys.argv[1] == "produce":
        produce(sys.argv[2], sys.argv[3])
    elif sys.argv[1] == "consume":
        consume(sys.argv[2], sys.argv[3], sys.argv[4])
    else:   # backwards compatible: <pkl> <queries.json> <order>
        consume(sys.argv[1], sys.argv[2], sys.argv[3])
