"""C19 - c-revision returns parameters of a ranking that accepts the new conditionals."""

from itertools import product

from hypothesis import strategies as st

from .. import bridge, fm, gen, ref
from ..core import obs
from .c18 import world_str

ID = "C19"
LEVEL = "exploration"
RULE = ("Hypothesis-generated priors (custom total rank maps over 1-4 atoms, normalised or not; "
        "System Z and c-representation objects of generated bases) x revision lists of 1-4 "
        "conditionals with distinct drawn index values (literal and compound, unfalsifiable and "
        "unverifiable ones, duplicates of meaning) x modes (gamma_plus_zero, partial/total fixed "
        "maps for gamma-/gamma+, feasible or not, with and without a CRevisionModel) x add/remove "
        "histories on the incremental model. When a dict is returned: every gamma a non-negative "
        "int, fixed values respected, and k*(w)=k(w)+sum gamma+(verified)+sum gamma-(falsified), "
        "computed in pure Python, accepts every revision conditional. When None is returned: the "
        "naive world-level SMT encoding must be unsatisfiable (a sat witness, re-validated in pure "
        "Python, is the violation). Any exception is a violation. gamma+ = 0: Pareto-minimality "
        "of the free gamma- components by the finite component-wise check; for an all-zero prior "
        "additionally a c-representation of the conditionals. compile_alt, compile_alt_fast and "
        "CRevisionModel.to_compilation() compared per index as multisets of (rank, accepted "
        "others, rejected others); after every add/remove the incremental compilation must equal "
        "a fresh compile_alt of the current conditionals and c_revision(model=m) must be as valid "
        "and as minimal as the model-free call. evaluations = individual comparisons. non-trivial "
        "= >=2 revision conditionals whose verification and falsification sets are non-empty; "
        "distinct by case hash.")
ASSUMPTIONS = ["CPython, Hypothesis, pure-Python acceptance check of the revised ranking",
               "z3 trusted only for 'unsat' of the naive existence encoding (every 'sat' is re-validated)"]
TECHNIQUE = "property-based testing with validity oracle (pure-Python revised ranking), existence oracle (naive SMT + witness re-check), differential between three compilations, model-based add/remove histories"


def budget(tier):
    return {"examples": 2400 if tier == "quick" else 16000,
            "soft_seconds": 360 if tier == "quick" else 3000}


@st.composite
def _case(draw, tier):
    kind = draw(gen._weighted([("custom", 6), ("zero", 3), ("z", 2), ("c", 2)]))
    n = draw(st.integers(1, 3 if tier == "quick" else 4))
    atoms = gen.ATOMS[:n]
    prior = {"kind": kind}
    if kind == "custom":
        ranks = [draw(st.integers(0, 4)) for _ in range(1 << n)]
        if draw(st.booleans()):
            mn = min(ranks)
            ranks = [r - mn for r in ranks]
        prior["ranks"] = ranks
    elif kind == "zero":
        prior["kind"] = "custom"
        prior["ranks"] = [0] * (1 << n)
    else:
        atoms, conds = draw(gen.strong_base(max(1, n - 1), n, 4, consts=False))
        n = len(atoms)
        prior["base"] = [[i, fm.to_json(B), fm.to_json(A)] for i, (B, A) in enumerate(conds, 1)]
    k = draw(st.integers(1, 4))
    idxs = draw(st.lists(st.integers(0 if draw(st.integers(0, 9)) == 0 else 1, 30), min_size=k, max_size=k, unique=True))
    revs = []
    for i in idxs:
        shape = draw(gen._weighted([("lit", 6), ("any", 3), ("odd", 1)]))
        if shape == "lit":
            B, A = draw(gen.literal(atoms)), draw(gen.literal(atoms))
        elif shape == "any":
            B, A = draw(gen.conditional(atoms))
        else:
            x = draw(gen.literal(atoms))
            B, A = draw(st.sampled_from([(fm.Or(x, fm.Not(x)), x), (x, fm.And(x, fm.Not(x))), (x, x), (fm.F, x)]))
        revs.append([i, fm.to_json(B), fm.to_json(A)])
    if len(revs) >= 2 and draw(st.integers(0, 5)) == 0:
        revs[-1] = [revs[-1][0], revs[0][1], revs[0][2]]   # duplicate of meaning
    gpz = draw(st.booleans())
    fm_, fp_ = {}, {}
    for i in idxs:
        if draw(st.integers(0, 4)) == 0:
            fm_[str(i)] = draw(st.integers(0, 4))
        if not gpz and draw(st.integers(0, 5)) == 0:
            fp_[str(i)] = draw(st.integers(0, 3))
    ops = []
    for _ in range(draw(st.integers(0, 5))):
        ops.append([draw(st.sampled_from(["add", "remove", "remove", "readd", "replace", "replace"])), draw(st.integers(0, 7))])
    return {"atoms": atoms, "prior": prior, "revs": revs, "gpz": gpz, "fix_minus": fm_, "fix_plus": fp_, "ops": ops}


@st.composite
def _chain_case(draw, tier):
    """'doubling chain': verifying conditional k forces falsifying all earlier ones while it has a
    cheap falsifying world of its own, so the minimal gamma- components grow like 1, 2, 4 (known
    behaviour of c-representations: impacts can be exponential in the number of conditionals)"""
    perm = list(draw(st.permutations(gen.ATOMS[:5])))
    a, b, c, d, e = [fm.V(x) if draw(st.integers(0, 3)) else fm.Not(fm.V(x)) for x in perm]
    f1 = fm.And(a, fm.Not(b))                       # falsifies (b|a)
    conds = [(b, a), (fm.And(f1, d), c), (fm.conj([f1, c, fm.Not(d)]), e)]
    idxs = draw(st.lists(st.integers(1, 30), min_size=3, max_size=3, unique=True))
    order = list(draw(st.permutations([0, 1, 2])))
    revs = [[idxs[j], fm.to_json(conds[j][0]), fm.to_json(conds[j][1])] for j in order]
    kind = draw(st.sampled_from(["zero", "zero", "small"]))
    ranks = [0] * 32 if kind == "zero" else [draw(st.integers(0, 1)) for _ in range(32)]
    return {"atoms": gen.ATOMS[:5], "prior": {"kind": "custom", "ranks": ranks}, "revs": revs,
            "gpz": draw(st.booleans()), "fix_minus": {}, "fix_plus": {}, "ops": [], "chain": True}


def strategy(tier):
    return st.one_of(_case(tier), _case(tier), _case(tier), _case(tier), _case(tier), _case(tier),
                     _case(tier), _case(tier), _case(tier), _chain_case(tier))


# --------------------------------------------------------------------------------------
# reference side
# --------------------------------------------------------------------------------------

def revised(kappa, sem, gp, gm):
    out = []
    for w in range(len(kappa)):
        r = kappa[w]
        for j in range(sem.m):
            if (sem.ver[j] >> w) & 1:
                r += gp[j]
            elif (sem.fal[j] >> w) & 1:
                r += gm[j]
        out.append(r)
    return out


def accepts_all(kappa, sem, gp, gm):
    ks = revised(kappa, sem, gp, gm)
    for j in range(sem.m):
        kv = min((ks[w] for w in fm.worlds_of(sem.ver[j])), default=None)
        kf = min((ks[w] for w in fm.worlds_of(sem.fal[j])), default=None)
        if kv is None or (kf is not None and not kv < kf):
            return False
    return True


def exists_params(kappa, sem, gpz, fixm, fixp):
    """naive SMT: -> witness (gp, gm) or None"""
    import z3
    gp = [z3.IntVal(fixp[j]) if j in fixp else (z3.IntVal(0) if gpz else z3.Int(f"p{j}")) for j in range(sem.m)]
    gm = [z3.IntVal(fixm[j]) if j in fixm else z3.Int(f"m{j}") for j in range(sem.m)]
    s = z3.Solver()
    for x in gp + gm:
        s.add(x >= 0)

    def k(w):
        t = [z3.IntVal(kappa[w])]
        for j in range(sem.m):
            if (sem.ver[j] >> w) & 1:
                t.append(gp[j])
            elif (sem.fal[j] >> w) & 1:
                t.append(gm[j])
        return z3.Sum(t)

    for j in range(sem.m):
        vs, fs = fm.worlds_of(sem.ver[j]), fm.worlds_of(sem.fal[j])
        if not vs:
            return None
        if fs:
            s.add(z3.Or([z3.And([k(v) < k(f) for f in fs]) for v in vs]))
    r = s.check()
    if r == z3.sat:
        m = s.model()
        ev = lambda x: int(str(m.eval(x, model_completion=True)))
        return [ev(x) for x in gp], [ev(x) for x in gm]
    if r == z3.unsat:
        return None
    raise RuntimeError("reference solver gave no verdict")


def norm_comp(comp):
    v, f = comp
    def n(d):
        return {int(k): sorted((int(t[0]), tuple(sorted(int(x) for x in t[1])), tuple(sorted(int(x) for x in t[2]))) for t in lst)
                for k, lst in d.items()}
    return n(v), n(f)


def run_case(case, ctx):
    L = bridge.lib()
    from inference.c_revision import c_revision, compile_alt, compile_alt_fast
    from inference.c_revision_model import CRevisionModel
    from inference.preocf import PreOCF
    atoms = case["atoms"]
    n = len(atoms)
    out = []
    pk = case["prior"]["kind"]
    try:
        if pk == "custom":
            kappa = list(case["prior"]["ranks"])
            if len(kappa) != 1 << n:
                return []
            mk_prior = lambda: PreOCF.init_custom({world_str(w, n): kappa[w] for w in range(1 << n)}, signature=list(atoms))
        else:
            base = [(k, fm.from_json(B), fm.from_json(A)) for k, B, A in case["prior"]["base"]]
            if not base or not ref.strongly_consistent(ref.Sem(atoms, [(B, A) for _, B, A in base])):
                return []
            bb = bridge.mk_bb(atoms, base)
            mk_prior = (lambda: PreOCF.init_system_z(bb)) if pk == "z" else (lambda: PreOCF.init_random_min_c_rep(bb))
            kappa = None
        prior = mk_prior()
        if kappa is None:
            allr = prior.compute_all_ranks()
            kappa = [allr[world_str(w, n)] for w in range(1 << n)]
            # every further prior is an object with exactly these ranks (a c-representation
            # object built a second time may pick another Pareto-minimal impact vector)
            ranks0 = list(kappa)
            mk_prior = lambda: PreOCF.init_custom({world_str(w, n): ranks0[w] for w in range(1 << n)}, signature=list(atoms))
    except BaseException as e:  # noqa: BLE001
        ctx.stratum("skipped:prior-construction-failed")   # C16 / C17 own that
        return []
    revs = [(i, fm.from_json(B), fm.from_json(A)) for i, B, A in case["revs"]]
    if not revs or len({i for i, _, _ in revs}) != len(revs):
        return []
    ctx.stratum(f"prior:{'zero' if not any(kappa) else pk}")
    if case.get("chain"):
        ctx.stratum("family:doubling-chain")
    idxs = [i for i, _, _ in revs]
    sem = ref.Sem(atoms, [(B, A) for _, B, A in revs])
    gpz = bool(case["gpz"])
    fixm = {idxs.index(int(k)): v for k, v in case.get("fix_minus", {}).items() if int(k) in idxs}
    fixp = {idxs.index(int(k)): v for k, v in case.get("fix_plus", {}).items() if int(k) in idxs}
    info = {"atoms": atoms, "prior_ranks": kappa, "revision": [f"{i}:{fm.cond_text(B, A)}" for i, B, A in revs],
            "gamma_plus_zero": gpz, "fixed_gamma_minus": case.get("fix_minus"), "fixed_gamma_plus": case.get("fix_plus")}
    ctx.stratum(f"mode:gpz={gpz},fixed-={'yes' if fixm else 'no'},fixed+={'yes' if fixp else 'no'}")
    if sum(1 for j in range(sem.m) if sem.ver[j] and sem.fal[j]) >= 2:
        ctx.nt(gen.case_hash(case))

    def mk_conds(items):
        cs = []
        for i, B, A in items:
            c = bridge.mk_cond(B, A)
            c.index = i
            cs.append(c)
        return cs

    conds = mk_conds(revs)
    # ---- the three compilations ---------------------------------------------------------------
    ref_comp = None
    try:
        ctx.ev(2)
        ref_comp = norm_comp(compile_alt(prior, conds))
        fast = norm_comp(compile_alt_fast(mk_prior(), mk_conds(revs)))
        inc = norm_comp(CRevisionModel(mk_prior(), mk_conds(revs)).to_compilation())
        if fast != ref_comp:
            out.append(obs("compile|fast!=reference", dict(info, reference=repr(ref_comp)[:600], fast=repr(fast)[:600])))
        if inc != ref_comp:
            out.append(obs("compile|incremental!=reference", dict(info, reference=repr(ref_comp)[:600], incremental=repr(inc)[:600])))
    except BaseException as e:  # noqa: BLE001
        if isinstance(e, (KeyboardInterrupt, SystemExit, MemoryError)):
            raise
        out.append(obs(f"compile|{bridge.exc_symptom(e)}", dict(info, message=f"{type(e).__name__}: {e}"[:200])))
    # ---- c_revision with and without model ---------------------------------------------------
    wit = exists_params(kappa, sem, gpz, fixm, fixp)
    if wit is not None and not accepts_all(kappa, sem, wit[0], wit[1]):
        raise RuntimeError("reference witness does not validate")
    ctx.stratum("params-exist" if wit is not None else "params-do-not-exist")
    fmi = {int(k): v for k, v in case.get("fix_minus", {}).items() if int(k) in idxs} or None
    fpi = {int(k): v for k, v in case.get("fix_plus", {}).items() if int(k) in idxs} or None

    def call(use_model):
        p = mk_prior()
        cs = mk_conds(revs)
        mdl = CRevisionModel(p, cs) if use_model else None
        return c_revision(p, cs, gamma_plus_zero=gpz, fixed_gamma_minus=fmi, fixed_gamma_plus=fpi, model=mdl)

    verdicts = {}
    for use_model in (False, True):
        tag = "with-model" if use_model else "plain"
        ctx.ev(1)
        try:
            res = call(use_model)
        except BaseException as e:  # noqa: BLE001
            if isinstance(e, (KeyboardInterrupt, SystemExit, MemoryError)):
                raise
            out.append(obs(f"c_revision|{bridge.exc_symptom(e)}", dict(info, call=tag, message=f"{type(e).__name__}: {e}"[:200])))
            continue
        if res is None:
            verdicts[tag] = None
            if wit is not None:
                out.append(obs("c_revision|returned-None-although-parameters-exist",
                               dict(info, call=tag, witness={"gamma+": wit[0], "gamma-": wit[1]})))
            continue
        gp, gm = [], []
        bad = False
        for j, i in enumerate(idxs):
            vp = res.get(f"gamma+_{i}", 0 if (gpz and j not in fixp) else None)
            vm = res.get(f"gamma-_{i}")
            for nm, v in ((f"gamma+_{i}", vp), (f"gamma-_{i}", vm)):
                if v is None:
                    # a parameter that occurs in no constraint is absent from the solver's model
                    ctx.stratum("param-missing(treated as 0)")
                    v = 0
                elif not isinstance(v, int) or isinstance(v, bool) or v < 0:
                    out.append(obs("c_revision|parameter-not-nonnegative-int", dict(info, call=tag, name=nm, value=repr(v))))
                    bad = True
                if nm.startswith("gamma+"):
                    vp = v
                else:
                    vm = v
            if j in fixm and vm != fixm[j]:
                out.append(obs("c_revision|fixed-value-not-respected", dict(info, call=tag, name=f"gamma-_{i}", value=vm)))
            if j in fixp and vp != fixp[j]:
                out.append(obs("c_revision|fixed-value-not-respected", dict(info, call=tag, name=f"gamma+_{i}", value=vp)))
            if gpz and j not in fixp and vp != 0:
                out.append(obs("c_revision|gamma-plus-not-zero", dict(info, call=tag, name=f"gamma+_{i}", value=vp)))
            gp.append(vp)
            gm.append(vm)
        if bad:
            continue
        ctx.ev(1)
        if not accepts_all(kappa, sem, gp, gm):
            out.append(obs("c_revision|revised-ranking-rejects-a-conditional",
                           dict(info, call=tag, returned={k: v for k, v in res.items() if k.startswith("gamma")},
                                revised_ranks=revised(kappa, sem, gp, gm))))
            continue
        verdicts[tag] = (gp, gm)
        if gpz and not fixp:
            free = [j for j in range(sem.m) if j not in fixm]
            size = 1
            for j in free:
                size *= gm[j] + 1
            ctx.ev(1)
            if size <= 20000:
                for ys in product(*[range(gm[j] + 1) for j in free]):
                    y = list(gm)
                    for j, v in zip(free, ys):
                        y[j] = v
                    if y != gm and accepts_all(kappa, sem, gp, y):
                        out.append(obs("c_revision|gamma-minus-not-pareto-minimal",
                                       dict(info, call=tag, returned=gm, dominated_by=y)))
                        break
                ctx.stratum("minimality-checked")
            if not any(kappa) and not fixm:
                ctx.stratum("zero-prior:c-representation-checked")
                if not ref.is_c_rep(sem, tuple(gm)):
                    out.append(obs("c_revision|zero-prior-not-a-c-representation", dict(info, call=tag, returned=gm)))
    if len(verdicts) == 2 and (verdicts["plain"] is None) != (verdicts["with-model"] is None):
        out.append(obs("c_revision|model-and-plain-disagree-on-existence", dict(info, verdicts=repr(verdicts))))
    # ---- incremental model histories -------------------------------------------------------------
    if case.get("ops"):
        try:
            p = mk_prior()
            mdl = CRevisionModel(p, mk_conds(revs))
            current = list(revs)
            removed = []
            pool_extra = [(100 + t, fm.V(atoms[t % n]), fm.Not(fm.V(atoms[(t + 1) % n])) if t % 2 else fm.V(atoms[(t + 1) % n])) for t in range(8)]
            for op, arg in case["ops"]:
                if op == "add":
                    cand = pool_extra[arg % len(pool_extra)]
                    if any(i == cand[0] for i, _, _ in current):
                        continue
                    mdl.add_conditional(mk_conds([cand])[0])
                    current.append(cand)
                elif op == "remove":
                    if not current:
                        continue
                    victim = current[arg % len(current)]
                    mdl.remove_conditional(victim[0])
                    current.remove(victim)
                    removed.append(victim)
                elif op == "replace":
                    # remove a conditional and add a DIFFERENT one under the same index
                    if not current:
                        continue
                    victim = current[arg % len(current)]
                    repl = pool_extra[(arg + victim[0]) % len(pool_extra)]
                    new = (victim[0], repl[1], repl[2])
                    if fm.cond_text(new[1], new[2]) == fm.cond_text(victim[1], victim[2]):
                        new = (victim[0], fm.Not(repl[1]), repl[2])
                    mdl.remove_conditional(victim[0])
                    mdl.add_conditional(mk_conds([new])[0])
                    current[current.index(victim)] = new
                elif op == "readd":
                    if not removed:
                        continue
                    victim = removed.pop(arg % len(removed))
                    if any(i == victim[0] for i, _, _ in current):
                        continue
                    mdl.add_conditional(mk_conds([victim])[0])
                    current.append(victim)
                ctx.ev(1)
                ctx.stratum(f"model-op:{op}")
                got = norm_comp(mdl.to_compilation())
                exp = norm_comp(compile_alt(mk_prior(), mk_conds(current))) if current else ({}, {})
                if got != exp:
                    out.append(obs("incremental|compilation-differs-after-history",
                                   dict(info, history=case["ops"], current=[f"{i}:{fm.cond_text(B, A)}" for i, B, A in current],
                                        got=repr(got)[:500], expected=repr(exp)[:500])))
                    break
        except BaseException as e:  # noqa: BLE001
            if isinstance(e, (KeyboardInterrupt, SystemExit, MemoryError)):
                raise
            out.append(obs(f"incremental|{bridge.exc_symptom(e)}", dict(info, history=case["ops"], message=f"{type(e).__name__}: {e}"[:200])))
    if ctx.record and len(revs) >= 2:
        ctx.sample(dict(info, parameters_exist=wit is not None, ops=case.get("ops")))
    return out


def shrink(case):
    revs = case["revs"]
    if len(revs) > 1:
        for i in range(len(revs)):
            c = dict(case)
            c["revs"] = revs[:i] + revs[i + 1:]
            yield c
    if case.get("ops"):
        for i in range(len(case["ops"])):
            c = dict(case)
            c["ops"] = case["ops"][:i] + case["ops"][i + 1:]
            yield c
    for key in ("fix_minus", "fix_plus"):
        if case.get(key):
            c = dict(case)
            c[key] = {}
            yield c
    if case["prior"]["kind"] == "custom":
        rk = case["prior"]["ranks"]
        for i, r in enumerate(rk):
            if r > 0:
                c = dict(case)
                c["prior"] = dict(case["prior"], ranks=rk[:i] + [r - 1] + rk[i + 1:])
                yield c
    for i, (idx, B, A) in enumerate(revs):
        for pos, f in ((1, B), (2, A)):
            for g in fm.simpler(fm.from_json(f)):
                c = dict(case)
                new = list(revs[i])
                new[pos] = fm.to_json(g)
                c["revs"] = revs[:i] + [new] + revs[i + 1:]
                yield c


def required_strata(tier):
    return ["family:doubling-chain", "prior:custom", "prior:zero", "prior:z", "prior:c", "params-exist", "params-do-not-exist",
            "minimality-checked", "zero-prior:c-representation-checked", "model-op:add", "model-op:remove",
            "model-op:readd", "model-op:replace"]
