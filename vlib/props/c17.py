"""C17 - the c-representation ranking function is a minimal model of the base; Pareto front."""

from itertools import product

from hypothesis import strategies as st

from .. import bridge, fm, gen, ref
from ..core import obs
from .c18 import world_str

ID = "C17"
LEVEL = "exploration"
RULE = ("Hypothesis-generated strongly consistent bases (1-4 atoms, 1-5 conditionals, parser keys "
        "1..n; including conditionals nobody falsifies and single-conditional bases) x 2-4 "
        "queries. Checked with the pure-Python c-representation checker: construction of "
        "PreOCF.init_random_min_c_rep succeeds; impacts are non-negative ints; compute_all_ranks "
        "equals the impact sums; every base conditional is accepted; the impact vector is a "
        "c-representation and Pareto-minimal (finite check: no vector component-wise <= it, other "
        "than itself, is a c-representation); every query with satisfiable antecedent that "
        "c-inference (library and reference) answers True is accepted. Front: "
        "c_inference_pareto_front(bb, max_solutions=K) with K above the size of the reference "
        "front in the box [0..U]^m (U = largest returned component + 2): termination is decided "
        "without a clock - K entries or a repeated vector where the reference front is smaller "
        "is 'does not terminate / repeats'; otherwise the returned set must equal the reference "
        "set. evaluations = individual comparisons. non-trivial = base with >=2 conditionals at "
        "least one of which needs a positive impact; distinct by (atom count, base masks).")
ASSUMPTIONS = ["CPython, Hypothesis, pure-Python c-representation checker",
               "front vectors with a component above U are outside the finite comparison (reported, not judged)"]
TECHNIQUE = "property-based testing with a pure-Python validity oracle (c-representation, finite Pareto-minimality), clock-free termination detector"
K0 = 14


def budget(tier):
    return {"examples": 2200 if tier == "quick" else 12000,
            "soft_seconds": 300 if tier == "quick" else 3000}


@st.composite
def _large(draw):
    """8-12 literal conditionals over 4-5 atoms (more conditionals than single-digit indices)"""
    n = draw(st.integers(4, 5))
    seed = draw(st.integers(0, 2**32))
    rnd = gen.rng(seed)
    for _ in range(50):
        atoms, conds = gen.r_literal_base(rnd, n, rnd.randint(10, 14), max_ant=2)
        conds = gen.repair_strong(atoms, conds)
        if len(conds) >= 9:
            break
    qs = [gen.r_query(rnd, atoms) for _ in range(2)]
    return gen.mk_case(atoms, conds, qs, large=True)


@st.composite
def _permuted(draw, inner):
    """the same case with the signature listed in a drawn order (world bit strings then mean
    something different from one object to the next in the same process)"""
    c = dict(draw(inner))
    c["atoms"] = list(draw(st.permutations(c["atoms"])))
    return c


def strategy(tier):
    return _permuted(_strategy(tier))


def _strategy(tier):
    return st.one_of(gen.strong_case(1, 4, 5, unfals=True, qlo=2, qhi=4, consts=True),
                     gen.strong_case(1, 4, 5, unfals=False, qlo=2, qhi=4, consts=False),
                     gen.strong_case(1, 4, 5, unfals=False, qlo=2, qhi=4, consts=False),
                     _large())


def run_case(case, ctx):
    L = bridge.lib()
    from inference.c_revision import c_inference_pareto_front
    from inference.preocf import PreOCF
    atoms, base, queries = gen.case_parts(case)
    if not base:
        return []
    allat = gen.all_atoms(atoms, base, [])
    n = len(atoms)
    conds = [(B, A) for _, B, A in base]
    sem = ref.Sem(atoms, conds)
    if not ref.strongly_consistent(sem):
        ctx.stratum("skipped:not-in-domain")
        return []
    m = sem.m
    out = []
    info = {"base": [f"{k}:{fm.cond_text(B, A)}" for k, B, A in base]}
    if any(sem.fal[j] == 0 for j in range(m)):
        ctx.stratum("unfalsifiable-conditional")
    if m == 1:
        ctx.stratum("single-conditional")
    if m >= 10:
        ctx.stratum("ten-or-more-conditionals")
    bb = bridge.mk_bb(atoms, base)
    ctx.ev(1)
    try:
        ocf = PreOCF.init_random_min_c_rep(bb)
        imp = ocf.save_impacts()
    except BaseException as e:  # noqa: BLE001
        if isinstance(e, (KeyboardInterrupt, SystemExit, MemoryError)):
            raise
        out.append(obs(f"construct|{bridge.exc_symptom(e)}", dict(info, message=f"{type(e).__name__}: {e}"[:200])))
        ocf = None
    if ocf is not None:
        ok = isinstance(imp, list) and len(imp) == m and all(isinstance(x, int) and not isinstance(x, bool) and x >= 0 for x in imp)
        ctx.ev(1)
        if not ok:
            out.append(obs("impacts|not-nonnegative-ints", dict(info, impacts=repr(imp))))
        else:
            eta = tuple(imp)
            if m >= 2 and any(eta):
                ctx.nt(repr((n, tuple(zip(sem.ver, sem.fal)))))
            ctx.stratum(f"max-impact={min(max(eta), 3)}")
            # ranks = impact sums
            ctx.ev(1)
            try:
                allr = ocf.compute_all_ranks()
                exp = {world_str(w, n): ref.kappa_pat(eta, ref.fal_pattern(sem, w)) for w in range(1 << n)}
                if dict(allr) != exp:
                    out.append(obs("ranks|not-impact-sums", dict(info, impacts=imp, got=dict(allr), expected=exp)))
            except BaseException as e:  # noqa: BLE001
                out.append(obs(f"compute_all_ranks|{bridge.exc_symptom(e)}", dict(info, message=str(e)[:200])))
            # model of the base
            ctx.ev(1)
            if not ref.is_c_rep(sem, eta):
                out.append(obs("impacts|not-a-c-representation", dict(info, impacts=imp)))
            else:
                for k, B, A in base:
                    ctx.ev(1)
                    try:
                        if not ocf.conditional_acceptance(bridge.mk_cond(B, A)):
                            out.append(obs("base-conditional-not-accepted", dict(info, impacts=imp, conditional=fm.cond_text(B, A))))
                    except BaseException as e:  # noqa: BLE001
                        out.append(obs(f"accept|{bridge.exc_symptom(e)}", dict(info, message=str(e)[:200])))
                # Pareto-minimality (finite check)
                size = 1
                for e_ in eta:
                    size *= e_ + 1
                ctx.ev(1)
                if size <= 100000:
                    d = ref.dominated_c_rep(sem, eta)
                    if d is not None:
                        out.append(obs("impacts|not-pareto-minimal", dict(info, impacts=imp, dominated_by=list(d))))
                else:
                    ctx.stratum("minimality:too-large-skipped")
            # queries inferred by c-inference are accepted
            if queries:
                r = bridge.answers(atoms, base, queries, "c")
                for i, (k, B, A) in enumerate(queries):
                    a, v, f = ref.Sem(gen.all_atoms(atoms, base, queries), conds).qmasks(B, A)
                    if not a or set(fm.atoms_of(A)) - set(atoms) or set(fm.atoms_of(B)) - set(atoms):
                        continue
                    refans, _ = ref.c_inference_smt(ref.Sem(gen.all_atoms(atoms, base, queries), conds), a, v, f)
                    if r[0] == "ok" and bool(r[1][i]) and refans:
                        ctx.ev(1)
                        ctx.stratum("query:c-inferred")
                        try:
                            if not ocf.conditional_acceptance(bridge.mk_cond(B, A)):
                                out.append(obs("c-inferred-query-not-accepted", dict(info, impacts=imp, query=fm.cond_text(B, A))))
                        except BaseException as e:  # noqa: BLE001
                            out.append(obs(f"accept|{bridge.exc_symptom(e)}", dict(info, message=str(e)[:200])))
    # ---- Pareto front -----------------------------------------------------------------------
    if m > 5:
        ctx.stratum("front:skipped-large-base")
        return out
    ctx.ev(1)
    try:
        front = c_inference_pareto_front(bb, max_solutions=K0)
    except BaseException as e:  # noqa: BLE001
        if isinstance(e, (KeyboardInterrupt, SystemExit, MemoryError)):
            raise
        out.append(obs(f"front|{bridge.exc_symptom(e)}", dict(info, message=f"{type(e).__name__}: {e}"[:200])))
        return out
    fr = [tuple(int(x) for x in v) for v in front]
    U = min((max((max(v) for v in fr), default=0)) + 2, 6 if m <= 3 else (4 if m == 4 else 3))
    box = [eta for eta in product(range(U + 1), repeat=m) if ref.is_c_rep(sem, eta)]
    ref_front = ref.pareto_minimal(box)
    ctx.stratum(f"front-size={min(len(ref_front), 4)}")
    d = dict(info, returned=[list(v) for v in fr], reference_front=[list(v) for v in ref_front], box_bound=U)
    inbox = [v for v in fr if max(v, default=0) <= U]
    if len(fr) != len(set(fr)) and len(ref_front) < len(fr):
        out.append(obs("front|repeats-vector", d))
    elif len(fr) >= K0 and len(ref_front) < K0:
        out.append(obs("front|does-not-terminate", d))
    elif len(inbox) != len(fr):
        ctx.stratum("front:vector-outside-box(not judged)")
    elif set(fr) != set(ref_front):
        kind = "missing-minimal-vector" if set(ref_front) - set(fr) else "non-minimal-or-invalid-vector"
        out.append(obs(f"front|{kind}", d))
    if ctx.record and m >= 2 and ocf is not None:
        ctx.sample(dict(info, impacts=imp, front=[list(v) for v in fr]))
    return out


def shrink(case):
    for c in gen.shrink_candidates(case):
        yield gen.renumber(c)


def required_strata(tier):
    return ["ten-or-more-conditionals", "unfalsifiable-conditional", "single-conditional", "max-impact=1", "max-impact=2", "front-size=1",
            "front-size=2", "query:c-inferred"]
