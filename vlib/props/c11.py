"""C11 - answers do not depend on the chosen solver back-end."""

import os

from hypothesis import strategies as st

from .. import bridge, engines, fm, gen, rel
from ..core import obs

ID = "C11"
LEVEL = "exploration"
NEEDS_ENGINES = True
RULE = ("Differential only. The set of usable rc2 engines is computed at run time (every pysat "
        "engine for which RC2 passes three sanity instances, probed in subprocesses; recorded in "
        "the evidence). For each Hypothesis-drawn case (small generated bases with constants and "
        "compound formulas, strongly and weakly consistent; medium generated bases; shipped "
        "corpora) System W and lex_inf are run under 'z3', 'rc2' and 'rc2-<engine>' in both "
        "modes, c-inference under 'rc2' and 'rc2-<engine>' (strict); quick rotates 4 engines per "
        "case (all covered across the run), thorough runs every engine on every small case. All "
        "answers of one operator and mode must agree (an exception under one back-end only is a "
        "disagreement). evaluations = (query, back-end) answers compared with the operator's "
        "reference back-end. non-trivial = query whose antecedent, verification and falsification "
        "are satisfiable (not decided by a short cut) on a base with >= 2 conditionals; distinct "
        "by (base, query text, operator, mode).")
ASSUMPTIONS = ["an exception raised inside pysat under exactly ONE rc2 engine while the default engine and all other "
               "engines answer is a defect of that third-party engine on that instance: recorded in the evidence, not judged",
               "usable engines decided by sanity instances, not by name (pysat maplesat segfaults on "
               "the empty formula and is excluded; kissat/lingeling/cryptominisat lack features)",
               "no independent oracle: a defect shared by all back-ends is out of scope here (C03-C05, C07 own it)"]
TECHNIQUE = "differential testing across all selectable back-ends on Hypothesis-generated and corpus inputs"


def budget(tier):
    return {"examples": 500 if tier == "quick" else 3000,
            "soft_seconds": 300 if tier == "quick" else 3000}


def _search_lex(seed):
    from . import c04
    return c04.search(seed)


def _search(seed):
    from .. import search as S
    feat = ["superset-before-subset", "min-card-set-after-larger"][seed % 2]
    return S.worldset_search(seed, feat, max_candidates=6000, need_lex_tie=(seed % 2 == 1))


@st.composite
def _case(draw, tier):
    q = tier == "quick"
    c = draw(st.one_of(
        gen.strong_case(1, 5, 6, qlo=3, qhi=4, unfals=True),
        gen.multiclause_case(5, nq=3),
        st.integers(0, 2**40).map(_search),
        st.integers(0, 2**40).map(_search),
        st.integers(0, 2**40).map(_search),
        st.integers(0, 2**40).map(_search_lex),
        st.integers(0, 2**40).map(_search_lex),
        st.integers(0, 2**40).map(_search_lex),
        gen.weak_case(1, 5, 6, qlo=3, qhi=4),
        rel.medium_case(8, 20 if q else 40, 20 if q else 40, nq=3),
        rel.corpus_case(30 if q else 100, 30 if q else 100, nq=2),
        rel.corpus_case(6, 10, families=["484", "AO", "birds"], nq=3),
    ))
    c = dict(c)
    c["rot"] = draw(st.integers(0, 10**6))
    return c


def strategy(tier):
    return _case(tier)


def run_case(case, ctx):
    m = rel.materialise(case, weak_ok=True)
    if m is None:
        ctx.stratum("skipped:unusable")
        return []
    atoms, base, queries = m
    if not queries:
        return []
    from inference.consistency_sat import consistency_indices
    part, _ = consistency_indices(bridge.mk_bb(atoms, base), "z3", True)
    if part is False:
        return []
    strongly = not part[-1]
    eng = list(engines.usable())
    ctx.extra["engines_usable"] = eng
    ctx.extra["engines_unusable"] = engines.unusable()
    small = len(atoms) <= 6
    if case.get("searched") in ("lex!=W", "card-tie", "multi-v-diff-cont", "multi-f-diff-cont", "allpairs!=def",
                                "tie-to-layer-0"):
        chosen = [eng[case.get("rot", 0) % len(eng)]]   # tie-structure cases: z3 vs rc2 is the point, one engine suffices
    elif ctx.tier == "thorough" and small:
        chosen = eng
    else:
        k = case.get("rot", 0)
        chosen = [eng[(k + i * 5) % len(eng)] for i in range(4)]
    for e in chosen:
        ctx.stratum(f"engine:{e}")
    src = case.get("family") or ("medium" if case.get("medium") else "small")
    ctx.stratum(f"source:{src}")
    R = rel.Runner(atoms, base, queries)
    out = []
    bid = gen.case_hash([case.get("corpus"), [[k, fm.to_json(B), fm.to_json(A)] for k, B, A in base]])
    btxt = [f"{kk}:{fm.cond_text(b, a)}" for kk, b, a in base][:30]
    for op in ("w", "lex", "c"):
        for weakly in ([False, True] if strongly else [True]):
            if op == "c" and (weakly or len(base) > 20):
                continue
            names = ([] if op == "c" else [f"{op}-z3"]) + [f"{op}-rc2"] + [f"{op}-rc2-{e}" for e in chosen]
            res = {n: R.get(n, weakly) for n in names}
            refname = f"{op}-rc2"
            ref = res[refname]
            # an exception raised INSIDE pysat under exactly one rc2 engine, while the default engine
            # and all others answer, marks that engine as not usable on this instance (third-party
            # defect, e.g. maplechrono returning an unsat core with a foreign literal): recorded, not judged
            failing = [n for n in names if res[n][0] == "exc"]
            if len(failing) == 1 and failing[0] != refname and "-rc2-" in failing[0] and \
                    os.sep + "pysat" + os.sep in (res[failing[0]][3] if len(res[failing[0]]) > 3 else ""):
                ctx.stratum(f"third-party-engine-failure:{failing[0].split('-rc2-')[1]}")
                lst = ctx.extra.setdefault("third_party_engine_failures", [])
                rec = f"{failing[0]}: {res[failing[0]][2][:80]}"
                if rec not in lst and len(lst) < 10:
                    lst.append(rec)
                names = [n for n in names if n != failing[0]]
            for n in names:
                if n == refname:
                    continue
                r = res[n]
                if (r[0] == "exc") != (ref[0] == "exc"):
                    ctx.ev(1)
                    out.append(obs(f"{op}|weakly={weakly}|exception-under-one-backend",
                                   {"backend": n if r[0] == "exc" else refname, "message": (r if r[0] == "exc" else ref)[2],
                                    "base": btxt, "corpus": case.get("corpus")}))
                    continue
                if r[0] == "exc":
                    continue
                for i, (k, B, A) in enumerate(queries):
                    ctx.ev(1)
                    if bool(r[1][i]) != bool(ref[1][i]):
                        kind = "z3" if n.endswith("-z3") else "rc2-engine"     # one bucket per root cause, engine in the detail
                        out.append(obs(f"{op}|weakly={weakly}|{kind}!=rc2",
                                       {"query": fm.cond_text(B, A), n: bool(r[1][i]), refname: bool(ref[1][i]),
                                        "base": btxt, "corpus": case.get("corpus")}))
            if ref[0] == "ok" and len(base) >= 2:
                for i, (k, B, A) in enumerate(queries):
                    if _nonvacuous(atoms, B, A):
                        ctx.nt(repr((bid, fm.cond_text(B, A), op, weakly)))
    if ctx.record and len(base) >= 3:
        ctx.sample({"source": src, "atoms": len(atoms), "conditionals": len(base), "engines": chosen,
                    "queries": [fm.cond_text(B, A) for _, B, A in queries][:3], "corpus": case.get("corpus")})
    return out


def _nonvacuous(atoms, B, A):
    ats = sorted(set(fm.atoms_of(A)) | set(fm.atoms_of(B)))
    if len(ats) > 12:
        return True
    a, b = fm.tt(A, ats), fm.tt(B, ats)
    return bool(a & b) and bool(a & ~b & fm.full(len(ats)))


def shrink(case):
    if case.get("corpus"):
        t = case.get("take") or []
        for i in range(len(t)):
            c = dict(case)
            c["take"] = [t[i]]
            if c != case:
                yield c
        return
    for c in gen.shrink_candidates(case):
        yield gen.renumber(c)


def required_strata(tier):
    return ["source:small", "source:medium", "source:random_large"] + [f"engine:{e}" for e in engines.usable()]
