"""C18 - ranking-function operations obey their defining laws for every ranking."""

from itertools import product

from hypothesis import strategies as st

from .. import bridge, fm, gen, ref
from ..core import obs

ID = "C18"
LEVEL = "exploration"
RULE = ("Hypothesis-generated rankings: custom total rank maps over 1-6 atoms with values 0-5 "
        "(asymmetric), and System Z / c-representation ranking objects of generated strongly "
        "consistent bases (all ranks computed first); plus formulas over the signature, "
        "conditionals, proper atom subsets, strictly increasing layer numberings. Laws computed "
        "by enumeration of all worlds: formula_rank = least rank over models / None; "
        "conditional_acceptance as stated (both undefined -> not accepted); marginalize: "
        "signature, each remaining world's rank = least rank of its extensions, formula ranks "
        "over remaining atoms preserved; compute_conditionalization / "
        "conditionalize_existing_ranks = exactly the models with their ranks; "
        "tpo2ranks(ranks2tpo(r), f) order-isomorphic to r for strictly increasing f and equal to "
        "r when f maps the layer index to that layer's rank. Exhaustive sub-domain (both tiers): "
        "all rank maps with ranks 0-2 over one and two atoms x all 4 / 16 semantic formulas x all "
        "conditionals built from them x every proper subset. evaluations = individual law "
        "instances compared. non-trivial = ranking with >=2 distinct ranks and a formula with "
        ">=1 model and >=1 counter-model; distinct by (signature size, rank vector, formula).")
ASSUMPTIONS = ["world bitstrings follow the object's own signature order (position i = signature[i])",
               "CPython, Hypothesis, laws evaluated by direct enumeration"]
TECHNIQUE = "property-based testing of algebraic laws by world enumeration, exhaustive for 1-2 atoms"


def budget(tier):
    return {"examples": 3200 if tier == "quick" else 24000,
            "soft_seconds": 240 if tier == "quick" else 2400}


def world_str(w, n):
    """harness world index -> library bitstring (position i = atom i)"""
    return "".join("1" if (w >> i) & 1 else "0" for i in range(n))


@st.composite
def _case(draw, tier):
    kind = draw(gen._weighted([("custom", 7), ("z", 2), ("c", 2)]))
    if kind == "custom":
        n = draw(st.integers(1, 6 if tier == "thorough" else 5))
        atoms = gen.ATOMS[:n]
        sig = list(draw(st.permutations(atoms)))
        ranks = [draw(st.integers(0, 5)) for _ in range(1 << n)]
        base = []
    else:
        atoms, conds = draw(gen.strong_base(1, 4, 5, consts=False))
        sig = list(draw(st.permutations(atoms)))
        ranks = None
        base = [[i, fm.to_json(B), fm.to_json(A)] for i, (B, A) in enumerate(conds, 1)]
    fs = [draw(gen.formula(sig)) for _ in range(draw(st.integers(2, 4)))]
    conds = [draw(gen.conditional(sig)) for _ in range(draw(st.integers(1, 3)))]
    k = draw(st.integers(0, len(sig) - 1))
    marg = list(draw(st.permutations(sig)))[:k]
    steps = [draw(st.integers(1, 4)) for _ in range(8)]
    pre = draw(st.lists(st.integers(0, 63), max_size=6))
    return {"kind": kind, "sig": sig, "ranks": ranks, "base": base, "pre": pre,
            "formulas": [fm.to_json(f) for f in fs],
            "conds": [[fm.to_json(B), fm.to_json(A)] for B, A in conds], "marg": marg, "steps": steps,
            "offset": draw(st.integers(0, 3))}


def strategy(tier):
    return _case(tier)


def _dnf(mask, atoms):
    n = len(atoms)
    terms = []
    for w in range(1 << n):
        if (mask >> w) & 1:
            terms.append(fm.conj([fm.V(a) if (w >> i) & 1 else fm.Not(fm.V(a)) for i, a in enumerate(atoms)]))
    return fm.disj(terms) if terms else fm.And(fm.V(atoms[0]), fm.Not(fm.V(atoms[0])))


def extra_cases(tier, shard, nshards, ctx):
    """exhaustive: ranks 0..2 over one and two atoms x all semantic formulas"""
    idx = 0
    for n in (1, 2):
        atoms = gen.ATOMS[:n]
        forms = [_dnf(m, atoms) for m in range(1 << (1 << n))]
        for ranks in product(range(3), repeat=1 << n):
            idx += 1
            if idx % nshards != shard:
                continue
            conds = [[fm.to_json(forms[(i * 7 + 3) % len(forms)]), fm.to_json(forms[i])] for i in range(len(forms))]
            conds += [[fm.to_json(forms[i]), fm.to_json(forms[(i * 5 + 1) % len(forms)])] for i in range(len(forms))]
            for marg in ([[]] if n == 1 else [[], ["a"], ["b"]]):
                ctx.stratum("exhaustive-subdomain")
                yield {"kind": "custom", "sig": list(atoms), "ranks": list(ranks), "base": [],
                       "formulas": [fm.to_json(f) for f in forms], "conds": conds, "marg": marg,
                       "steps": [1, 2, 1, 3, 1, 1, 2, 1], "offset": 0, "exhaustive": True}
    ctx.extra["exhaustive_domains"] = ["all rank maps 0..2 over 1 and 2 atoms x all semantic formulas x all proper subsets"]


def run_case(case, ctx):
    L = bridge.lib()
    from inference.preocf import PreOCF, ranks2tpo, tpo2ranks
    sig = case["sig"]
    n = len(sig)
    kind = case["kind"]
    out = []
    try:
        if kind == "custom":
            rk = {world_str(w, n): r for w, r in enumerate(case["ranks"])}
            ocf = PreOCF.init_custom(dict(rk), signature=list(sig))
        else:
            base = [(k, fm.from_json(B), fm.from_json(A)) for k, B, A in case["base"]]
            sem = ref.Sem(sig, [(B, A) for _, B, A in base])
            if not base or not ref.strongly_consistent(sem):
                return []
            bb = bridge.mk_bb(sig, base)
            mk = (lambda: PreOCF.init_system_z(bb)) if kind == "z" else (lambda: PreOCF.init_random_min_c_rep(bb))
            ocf = mk()
            if kind == "c":
                # several Pareto-minimal impact vectors may exist: reference from THIS object's impacts
                imp0 = tuple(ocf.save_impacts())
                rk = {world_str(w, n): ref.kappa_pat(imp0, ref.fal_pattern(sem, w)) for w in range(1 << n)}
            else:
                rk = dict(mk().compute_all_ranks())    # System Z ranking is unique: twin object as reference
            # the object under test stays lazily filled: only a drawn subset of worlds is ranked
            for w in case.get("pre", []):
                ocf.rank_world(world_str(w % (1 << n), n))
            if 0 < len(set(w % (1 << n) for w in case.get("pre", []))) < (1 << n):
                ctx.stratum("lazy:partially-ranked")
    except BaseException as e:  # noqa: BLE001
        if kind == "custom":
            return [obs(f"construct|{bridge.exc_symptom(e)}", {"message": str(e)[:200]})]
        ctx.stratum("skipped:construction-failed")  # C16 / C17 own construction
        return []
    ctx.stratum(f"kind:{kind}")
    ranks = [rk[world_str(w, n)] for w in range(1 << n)]
    distinct = len(set(ranks)) >= 2

    def models(f):
        return [w for w in range(1 << n) if fm.ev(f, {a: bool((w >> i) & 1) for i, a in enumerate(sig)})]

    def frank(f):
        ms = models(f)
        return min((ranks[w] for w in ms), default=None)

    info = {"kind": kind, "sig": sig, "ranks": ranks}
    # ---- formula_rank / conditionalisation -----------------------------------------------
    for fj in case["formulas"]:
        f = fm.from_json(fj)
        ms = models(f)
        if distinct and ms and len(ms) < (1 << n):
            ctx.nt(repr((n, tuple(ranks), fm.to_cl(f))))
        ctx.ev(1)
        try:
            got = ocf.formula_rank(bridge.to_pysmt(f))
        except BaseException as e:  # noqa: BLE001
            out.append(obs(f"formula_rank|{bridge.exc_symptom(e)}", dict(info, formula=fm.to_cl(f), message=str(e)[:200])))
            continue
        if got != frank(f):
            out.append(obs("formula_rank|value", dict(info, formula=fm.to_cl(f), got=got, expected=frank(f))))
        exp = {world_str(w, n): ranks[w] for w in ms}
        for name in ("compute_conditionalization", "conditionalize_existing_ranks"):
            ctx.ev(1)
            try:
                g = getattr(ocf, name)(bridge.to_pysmt(f))
            except BaseException as e:  # noqa: BLE001
                out.append(obs(f"{name}|{bridge.exc_symptom(e)}", dict(info, formula=fm.to_cl(f), message=str(e)[:200])))
                continue
            if dict(g) != exp:
                out.append(obs(f"{name}|value", dict(info, formula=fm.to_cl(f), got=dict(g), expected=exp)))
    # ---- conditional acceptance ------------------------------------------------------------
    for Bj, Aj in case["conds"]:
        B, A = fm.from_json(Bj), fm.from_json(Aj)
        v, f_ = frank(fm.And(A, B)), frank(fm.And(A, fm.Not(B)))
        exp = v is not None and (f_ is None or v < f_)
        ctx.ev(1)
        if v is None and f_ is None:
            ctx.stratum("acceptance:both-undefined")
        elif v is not None and f_ is not None and v == f_:
            ctx.stratum("acceptance:tie")
        try:
            got = ocf.conditional_acceptance(bridge.mk_cond(B, A))
        except BaseException as e:  # noqa: BLE001
            out.append(obs(f"conditional_acceptance|{bridge.exc_symptom(e)}", dict(info, cond=fm.cond_text(B, A), message=str(e)[:200])))
            continue
        if bool(got) != exp:
            out.append(obs("conditional_acceptance|value", dict(info, cond=fm.cond_text(B, A), got=bool(got), expected=exp)))
    # ---- marginalisation ----------------------------------------------------------------------
    if kind != "custom":
        try:
            ocf.compute_all_ranks()     # marginalisation works on the ranks computed so far
        except BaseException as e:  # noqa: BLE001
            out.append(obs(f"compute_all_ranks|{bridge.exc_symptom(e)}", dict(info, message=str(e)[:200])))
    marg = [a for a in case["marg"] if a in sig]
    if len(marg) < n:
        keep = [a for a in sig if a not in marg]
        ctx.ev(1)
        ctx.stratum(f"marginalize:{min(len(marg), 3)}-atoms")
        try:
            mo = ocf.marginalize(list(marg))
            msig = list(mo.signature)
            if msig != keep:
                out.append(obs("marginalize|signature", dict(info, marg=marg, got=msig, expected=keep)))
            else:
                exp = {}
                for w in range(1 << n):
                    key = "".join("1" if (w >> i) & 1 else "0" for i, a in enumerate(sig) if a not in marg)
                    exp[key] = min(exp.get(key, ranks[w]), ranks[w])
                gotr = {k: v for k, v in mo.ranks.items()}
                if gotr != exp:
                    out.append(obs("marginalize|ranks", dict(info, marg=marg, got=gotr, expected=exp)))
                else:
                    for fj in case["formulas"]:
                        f = fm.from_json(fj)
                        if set(fm.atoms_of(f)) <= set(keep):
                            ctx.ev(1)
                            g2 = mo.formula_rank(bridge.to_pysmt(f))
                            if g2 != frank(f):
                                out.append(obs("marginalize|formula-rank-not-preserved",
                                               dict(info, marg=marg, formula=fm.to_cl(f), got=g2, expected=frank(f))))
        except BaseException as e:  # noqa: BLE001
            out.append(obs(f"marginalize|{bridge.exc_symptom(e)}", dict(info, marg=marg, message=str(e)[:200])))
    # ---- total preorder round trip --------------------------------------------------------------
    try:
        ctx.ev(2)
        tpo = ranks2tpo(dict(rk))
        layer_ranks = sorted(set(ranks))
        worlds = set(rk)
        if [set(x) for x in tpo] != [{w for w in worlds if rk[w] == r} for r in layer_ranks]:
            out.append(obs("ranks2tpo|layers", dict(info, got=[sorted(x) for x in tpo])))
        else:
            back = tpo2ranks(tpo, lambda i: layer_ranks[i])
            if dict(back) != rk:
                out.append(obs("tpo2ranks|identity", dict(info, got=dict(back))))
            vals, cur = [], case.get("offset", 0)
            for s in case["steps"][:len(tpo)] + [1] * len(tpo):
                vals.append(cur)
                cur += max(1, s)
            back2 = tpo2ranks(tpo, lambda i: vals[i])
            ws = sorted(worlds)
            for x in ws:
                for y in ws:
                    if (rk[x] < rk[y]) != (back2[x] < back2[y]) or (rk[x] == rk[y]) != (back2[x] == back2[y]):
                        out.append(obs("tpo2ranks|order", dict(info, numbering=vals[:len(tpo)], got=dict(back2))))
                        break
                else:
                    continue
                break
    except BaseException as e:  # noqa: BLE001
        out.append(obs(f"tpo|{bridge.exc_symptom(e)}", dict(info, message=str(e)[:200])))
    if ctx.record and distinct and n >= 2 and not case.get("exhaustive"):
        ctx.sample({"kind": kind, "signature": sig, "ranks": {world_str(w, n): ranks[w] for w in range(min(1 << n, 8))},
                    "formulas": [fm.to_cl(fm.from_json(f)) for f in case["formulas"]][:3], "marginalize": marg})
    return out


def shrink(case):
    for key in ("formulas", "conds"):
        items = case[key]
        if len(items) > 1:
            for i in range(len(items)):
                c = dict(case)
                c[key] = [items[i]]
                yield c
    if case["marg"]:
        c = dict(case)
        c["marg"] = case["marg"][:-1]
        yield c
    if case["kind"] == "custom":
        for i, r in enumerate(case["ranks"]):
            if r > 0:
                c = dict(case)
                c["ranks"] = case["ranks"][:i] + [r - 1] + case["ranks"][i + 1:]
                yield c
    for i, fj in enumerate(case["formulas"]):
        for g in fm.simpler(fm.from_json(fj)):
            c = dict(case)
            c["formulas"] = case["formulas"][:i] + [fm.to_json(g)] + case["formulas"][i + 1:]
            yield c


def required_strata(tier):
    return ["kind:custom", "kind:z", "kind:c", "lazy:partially-ranked", "acceptance:both-undefined", "acceptance:tie",
            "marginalize:1-atoms", "marginalize:2-atoms", "exhaustive-subdomain"]
