"""atheris target for C10 (run as a child process: libFuzzer owns the process).

usage: python -m vlib.props.c10_fuzz <tokens|bytes> <found.jsonl> <corpus_dir> [libFuzzer flags]
The oracle (reference reader: accept/reject and truth table) sits inside the target; a
disagreement is appended to found.jsonl and fuzzing continues (it is re-judged by the
ordinary C10 check afterwards).
"""
import json
import os
import sys
import warnings

warnings.filterwarnings("ignore")
os.environ.setdefault("INFOCF_LOGLEVEL", "ERROR")
import atheris  # noqa: E402

from vlib import bridge, clref, fm  # noqa: E402
from vlib.props import c10  # noqa: E402

decoder, outp = sys.argv[1], sys.argv[2]
decode = c10.decode_tokens if decoder == "tokens" else c10.decode_bytes
bridge.lib()
with atheris.instrument_imports(include=["parser", "antlr4"]):
    import importlib
    import antlr4  # noqa: F401
    import parser.Wrappers as W
    importlib.reload(W)

seen = set()


def judge(text):
    try:
        r = clref.parse_formula(text)
    except clref.Reject:
        r = None
    got = c10.lib_call(W.parse_formula, text)
    if r is None:
        return got[0] == "ok"
    if got[0] != "ok":
        return True
    return not c10.equivalent(r, c10.from_pysmt(got[1]))


def TestOneInput(data):
    text = decode(data)
    if text in seen:
        return
    if judge(text):
        seen.add(text)
        with open(outp, "a") as fd:
            fd.write(json.dumps({"text": text}) + "\n")


atheris.Setup([sys.argv[0]] + sys.argv[3:], TestOneInput)
atheris.Fuzz()
