"""C07 - extended semantics: exact and total on every weakly consistent base."""

from hypothesis import strategies as st

from .. import gen
from . import opsem

ID = "C07"
LEVEL = "exploration"
RULE = ("Hypothesis-generated weakly consistent bases (finite part made consistent by "
        "construction + infinity-layer material: (Bottom|phi), unverifiable and self-"
        "contradicting conditionals, complementary pairs; including bases without any finite "
        "layer) and strongly consistent bases, x 3-6 queries x {p-entailment, System Z, System W "
        "rc2/z3, lex rc2/z3} with weakly=True. Oracle = the statement literally: feasible "
        "worlds, the vacuity rules, otherwise the strict definition restricted to feasible "
        "worlds and finite layers; any exception or non-Boolean answer is a violation. "
        "evaluations = answers compared. non-trivial = A, A&B, A&notB all have feasible models; "
        "distinct by (atom count, base masks, query masks). Strata: #finite layers x infinity "
        "layer empty/non-empty, vacuity class of the query.")
ASSUMPTIONS = ["CPython, Hypothesis, harness reference semantics (self-checked: p<=Z<=W<=lex; "
               "extended = strict on strongly consistent bases)",
               "programmatic construction with parser conventions"]
CFGS = ["p", "z", "w-rc2", "w-z3", "lex-rc2", "lex-z3"]


def budget(tier):
    return {"examples": 1300 if tier == "quick" else 10000,
            "soft_seconds": 240 if tier == "quick" else 2400}


def strategy(tier):
    hi = 4 if tier == "quick" else 5
    return st.one_of(gen.weak_case(1, hi, 6), gen.weak_case(1, hi, 6), gen.strong_case(1, hi, 6))


def _strata(ctx, M, q, BA, e):
    a, v, f = q
    fe = M.feasible
    ctx.stratum(f"finite-layers={min(len(M.layers), 3)}|inf={'nonempty' if M.inf_layer else 'empty'}")
    if not (a & fe):
        ctx.stratum("q:A-infeasible")
    elif not (f & fe):
        ctx.stratum("q:AnotB-infeasible")
    elif not (v & fe):
        ctx.stratum("q:AB-infeasible")
    if M.inf_layer and (a & ~fe) and (a & fe):
        ctx.stratum("q:A-partly-infeasible")


def run_case(case, ctx):
    atoms, base, queries, allat, sem = opsem.build(case)
    if base:
        from .. import ref
        Ms = ref.Model(sem, extended=False)
        if Ms.ok:
            # oracle self-check: extended = strict on strongly consistent bases
            Me = ref.Model(sem, extended=True)
            for _, B, A in queries:
                a, v, f = sem.qmasks(B, A)
                for op in ("p_entailment", "system_z", "system_w", "lex"):
                    if getattr(Ms, op)(a, v, f) != getattr(Me, op)(a, v, f):
                        raise opsem.HarnessError("oracle: extended != strict on consistent base")
            ctx.stratum("base:strongly-consistent")
    return opsem.compare(ID, case, ctx, CFGS, extended=True, strata_fn=_strata)


def shrink(case):
    for c in gen.shrink_candidates(case):
        yield gen.renumber(c)


def describe(case):
    return opsem.describe(case, extended=True)


def required_strata(tier):
    return ["expected=True", "expected=False", "base:strongly-consistent",
            "finite-layers=0|inf=nonempty", "finite-layers=1|inf=nonempty",
            "finite-layers=2|inf=nonempty", "finite-layers=3|inf=nonempty",
            "finite-layers=1|inf=empty", "finite-layers=2|inf=empty",
            "q:A-infeasible", "q:AnotB-infeasible", "q:AB-infeasible", "q:A-partly-infeasible"]
