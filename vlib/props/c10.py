"""C10 - the parser yields exactly the documented meaning, or rejects."""

import random

from hypothesis import strategies as st

from .. import bridge, clref, fm, gen
from ..core import obs
from .opsem import HarnessError

ID = "C10"
LEVEL = "exploration"
RULE = ("Grammar-directed Hypothesis generation of formulas, belief-base files and query lists "
        "(random minimal/full/redundant parenthesisation, blanks, tabs, block and line comments, "
        "CRLF, identifiers with digits and mixed case, Top/Bottom), plus malformed mutants from "
        "unambiguous classes (trailing tokens after a complete formula or after the closing "
        "brace, missing separators, unbalanced parentheses, empty operands, illegal characters, "
        "missing bar). Oracle = reference reader written from docs/CL_SYNTAX.md (accept/reject and "
        "truth table over all assignments); for bases additionally declared signature, keys 1..n "
        "in file order, consequent/antecedent placement, str(conditional) re-parses to an "
        "equivalent conditional; independent relation accept(s) => accept('('+s+')') and "
        "equivalent. Thorough tier adds coverage-guided fuzzing (atheris) of parse_formula with "
        "the same oracle inside the target. evaluations = texts parsed and compared. "
        "non-trivial = text with >=2 different connectives whose meaning changes under another "
        "precedence/operand order, or a malformed mutant; distinct by text.")
ASSUMPTIONS = ["the reference reader implements the documented grammar (self-checked against the "
               "formula each text was rendered from)", "malformed inputs come only from classes "
               "whose ill-formedness is unambiguous in the documentation", "CPython, Hypothesis"]
TECHNIQUE = "grammar-based property testing with a reference parser + metamorphic wrap relation; atheris coverage-guided fuzzing in the thorough tier"

KEYWORDS = {"Top", "Bottom", "signature", "conditionals"}


def budget(tier):
    return {"examples": 12000 if tier == "quick" else 80000,
            "soft_seconds": 120 if tier == "quick" else 1500}


# --------------------------------------------------------------------------------------
# rendering with layout variation (layout randomness is seeded by a Hypothesis integer)
# --------------------------------------------------------------------------------------

def _ws(rnd, comments=True):
    s = rnd.choice(["", "", "", " ", " ", "  ", "\t"])
    if comments and rnd.random() < 0.04:
        s += rnd.choice(["/* c */", "/*a,b;(*/", "/**/ "])
    return s


def render_formula(f, rnd, comments=True, redundant=0.15):
    prec = {"o": 1, "a": 2, "n": 3}

    def go(g, need):
        t = g[0]
        if t == "v":
            s = g[1]
        elif t == "T":
            s = "Top"
        elif t == "F":
            s = "Bottom"
        elif t == "n":
            s = "!" + _ws(rnd, comments) + go(g[1], 3)
        else:
            op = "," if t == "a" else ";"
            s = go(g[1], prec[t]) + _ws(rnd, comments) + op + _ws(rnd, comments) + go(g[2], prec[t])
        mine = prec.get(t, 4)
        if mine < need or rnd.random() < redundant:
            s = "(" + _ws(rnd, comments) + s + _ws(rnd, comments) + ")"
        return s

    return _ws(rnd, comments) + go(f, 0) + _ws(rnd, comments)


def render_cond(B, A, rnd):
    return ("(" + render_formula(B, rnd) + "|" + render_formula(A, rnd) + ")")


def render_base(sig, name, conds, rnd):
    nl = rnd.choice(["\n", "\n", "\r\n"])

    def nls(lo, hi):
        out = ""
        for _ in range(rnd.randint(lo, hi)):
            out += _ws(rnd, False) + (rnd.choice(["// comment , ( |", "//"]) if rnd.random() < 0.1 else "") + nl
        return out

    s = nls(0, 2)
    s += _ws(rnd, False) + "signature" + _ws(rnd, False) + nls(1, 2)
    s += _ws(rnd, False) + (_ws(rnd, False) + "," + _ws(rnd, False)).join(sig) + _ws(rnd, False) + nl
    s += nls(0, 2)
    s += _ws(rnd, False) + "conditionals" + _ws(rnd, False) + nls(1, 2)
    s += _ws(rnd, False) + name + _ws(rnd, False) + nls(0, 1) + "{" + _ws(rnd, False) + nls(0, 2)
    parts = []
    for B, A in conds:
        parts.append(_ws(rnd, False) + render_cond(B, A, rnd) + _ws(rnd, False))
    sep = "," + _ws(rnd, False)
    body = ""
    for i, p in enumerate(parts):
        body += p
        if i < len(parts) - 1:
            body += sep + nls(0, 2)
    s += body + nls(0, 2) + "}" + _ws(rnd, False) + nls(0, 2)
    return s


def render_queries(conds, rnd):
    nl = rnd.choice(["\n", "\r\n"])
    out = ""
    for i, (B, A) in enumerate(conds):
        out += render_cond(B, A, rnd)
        if i < len(conds) - 1:
            out += "," + rnd.choice(["", " ", nl, nl + nl])
    return out + rnd.choice(["", nl])


@st.composite
def names(draw, k):
    out = []
    alphabet = "abcdefghijklmnopqrstuvwxyzABCDEFGHIJKLMNOPQRSTUVWXYZ"
    while len(out) < k:
        first = draw(st.sampled_from(alphabet))
        rest = draw(st.text(alphabet + "0123456789" + ("_-" if draw(st.integers(0, 3)) == 0 else ""), max_size=4))
        n = first + rest
        if n in KEYWORDS or n in out:
            continue
        out.append(n)
    return out


MUT_FORMULA = ["trail-atom", "trail-rparen", "lead-lparen", "trail-comma", "lead-comma", "double-comma",
               "illegal-char", "trail-not", "empty-parens", "juxtapose", "trail-semicolon",
               "newline-trail-rparen", "newline-trail-atom"]
MUT_BASE = ["after-brace-garbage", "after-brace-cond", "missing-cond-comma", "missing-bar",
            "missing-open-brace", "sig-missing-comma", "unbalanced-in-cond", "double-comma-in-cond",
            "missing-close-brace", "illegal-char"]


def mutate_formula(text, kind, rnd):
    if kind == "trail-atom":
        return text + " b"
    if kind == "trail-rparen":
        return text + ")"
    if kind == "lead-lparen":
        return "(" + text
    if kind == "trail-comma":
        return text + ","
    if kind == "lead-comma":
        return "," + text
    if kind == "double-comma":
        i = text.find(",")
        return text[:i] + ",," + text[i + 1:] if i >= 0 else text + ",,a"
    if kind == "illegal-char":
        i = rnd.randint(0, len(text))
        return text[:i] + rnd.choice("&$#%=+*?~^") + text[i:]
    if kind == "trail-not":
        return text + " !"
    if kind == "empty-parens":
        return text + ",()"
    if kind == "juxtapose":
        return text + " " + text
    if kind == "trail-semicolon":
        return text + ";"
    if kind == "newline-trail-rparen":
        return text + rnd.choice(["\n", "\r\n", " \n "]) + ")"
    if kind == "newline-trail-atom":
        return text + rnd.choice(["\n", "\r\n", "\n\n"]) + "b" + rnd.choice(["", " c", ")"])
    raise AssertionError(kind)


def mutate_base(text, kind, rnd):
    if kind == "after-brace-garbage":
        return text.rstrip() + "\nfoo bar\n"
    if kind == "after-brace-cond":
        return text.rstrip() + " (a|b)\n"
    if kind == "missing-cond-comma":
        i = text.find("),")
        j = text.find(")", 0)
        if i < 0:
            return None
        return text[:i + 1] + " " + text[i + 2:]
    if kind == "missing-bar":
        i = text.find("|")
        return text[:i] + " " + text[i + 1:] if i >= 0 else None
    if kind == "missing-open-brace":
        i = text.find("{")
        return text[:i] + " " + text[i + 1:]
    if kind == "missing-close-brace":
        i = text.rfind("}")
        return text[:i] + " " + text[i + 1:]
    if kind == "sig-missing-comma":
        i = text.find("signature")
        j = text.find(",", i)
        k = text.find("conditionals")
        if j < 0 or j > k:
            return None
        return text[:j] + " " + text[j + 1:]
    if kind == "unbalanced-in-cond":
        i = text.rfind(")")
        return text[:i] + " " + text[i + 1:]
    if kind == "double-comma-in-cond":
        i = text.find("|")
        return text[:i] + ",," + text[i:] if i >= 0 else None
    if kind == "illegal-char":
        i = text.find("{")
        i = rnd.randint(i + 1, len(text) - 1) if i >= 0 else 0
        return text[:i] + rnd.choice("&$#%=+*?~^") + text[i:]
    raise AssertionError(kind)


@st.composite
def _case(draw, tier):
    kind = draw(gen._weighted([("formula", 40), ("base", 25), ("queries", 10), ("bad-formula", 15),
                               ("bad-base", 10)]))
    n = draw(st.integers(1, 5))
    nm = draw(names(n))
    seed = draw(st.integers(0, 2**32))
    rnd = random.Random(seed)
    if kind in ("formula", "bad-formula"):
        f = draw(gen.deep_formula(nm, max_leaves=draw(st.sampled_from([2, 4, 8, 14]))))
        text = render_formula(f, rnd, redundant=draw(st.sampled_from([0.0, 0.15, 0.6])))
        if kind == "formula":
            return {"kind": "formula", "text": text, "expect": fm.to_json(f)}
        mk = draw(st.sampled_from(MUT_FORMULA))
        return {"kind": "bad-formula", "text": mutate_formula(text, mk, rnd), "mutation": mk}
    m = draw(st.integers(0 if kind == "base" else 1, 5))
    conds = [draw(gen.conditional(nm)) for _ in range(m)]
    if kind == "queries":
        return {"kind": "queries", "text": render_queries(conds, rnd),
                "conds": [[fm.to_json(B), fm.to_json(A)] for B, A in conds]}
    extra = draw(st.integers(0, 2))
    sig = list(nm) + [x for x in draw(names(n + extra)) if x not in nm][:extra]
    sig = list(draw(st.permutations(sig)))
    name = draw(names(1))[0]
    text = render_base(sig, name, conds, rnd)
    if kind == "base":
        return {"kind": "base", "text": text, "sig": sig, "name": name,
                "conds": [[fm.to_json(B), fm.to_json(A)] for B, A in conds]}
    if not conds:
        conds = [(fm.V(nm[0]), fm.T)]
        text = render_base(sig, name, conds, rnd)
    mk = draw(st.sampled_from(MUT_BASE))
    mt = mutate_base(text, mk, rnd)
    if mt is None:
        mk, mt = "after-brace-garbage", mutate_base(text, "after-brace-garbage", rnd)
    return {"kind": "bad-base", "text": mt, "mutation": mk}


def strategy(tier):
    return _case(tier)


# --------------------------------------------------------------------------------------
# library side
# --------------------------------------------------------------------------------------

def from_pysmt(node):
    if node.is_symbol():
        return fm.V(node.symbol_name())
    if node.is_true():
        return fm.T
    if node.is_false():
        return fm.F
    if node.is_not():
        return fm.Not(from_pysmt(node.arg(0)))
    if node.is_and():
        return fm.conj([from_pysmt(a) for a in node.args()])
    if node.is_or():
        return fm.disj([from_pysmt(a) for a in node.args()])
    raise HarnessError(f"unexpected node {node}")


def equivalent(f, g):
    atoms = sorted(set(fm.atoms_of(f)) | set(fm.atoms_of(g)))
    return fm.tt(f, atoms) == fm.tt(g, atoms)


def precedence_sensitive(f):
    """meaning changes under a different precedence / operand order"""
    kinds = {g[0] for g in fm.subformulas(f)} & {"n", "a", "o"}
    if len(kinds) < 2:
        return False
    txt = fm.to_cl(f)
    # alternative reading: ';' tighter than ','
    alt = txt.replace(",", "\0").replace(";", ",").replace("\0", ";")
    try:
        g = clref.parse_formula(alt)
    except clref.Reject:
        return True
    sw = {"a": "o", "o": "a"}

    def swap(h):
        if h[0] in sw:
            return (sw[h[0]], swap(h[1]), swap(h[2]))
        if h[0] == "n":
            return ("n", swap(h[1]))
        return h
    return not equivalent(f, swap(g))


def lib_call(fn, text):
    try:
        return ("ok", fn(text))
    except BaseException as e:  # noqa: BLE001 - rejecting malformed text *is* the contract
        if isinstance(e, (KeyboardInterrupt, SystemExit, MemoryError, RecursionError)):
            raise
        return ("rej", f"{type(e).__name__}: {e}"[:160])


def check_formula_text(text, ctx, out, expect=None, tag="formula"):
    from parser.Wrappers import parse_formula
    try:
        r = clref.parse_formula(text)
    except clref.Reject as e:
        r = None
        why = str(e)
    if expect is not None:
        if r is None or not equivalent(r, expect):
            raise HarnessError(f"reference reader disagrees with construction on {text!r}")
    ctx.ev(1)
    got = lib_call(parse_formula, text)
    if r is None:
        if got[0] == "ok":
            out.append(obs(f"{tag}|accepts-malformed", {"text": text, "reference": why,
                                                       "parsed_as": str(got[1])}))
        return None
    if got[0] != "ok":
        out.append(obs(f"{tag}|rejects-wellformed", {"text": text, "error": got[1]}))
        return r
    g = from_pysmt(got[1])
    if not equivalent(r, g):
        out.append(obs(f"{tag}|meaning", {"text": text, "reference": fm.to_cl(r), "parsed_as": fm.to_cl(g)}))
    return r


def wrap_relation(text, ctx, out):
    """accept(s) => accept('(' + s + ')') and equivalent (needs no reference reader)"""
    from parser.Wrappers import parse_formula
    if "//" in text or "/*" in text:
        return
    a = lib_call(parse_formula, text)
    if a[0] != "ok":
        return
    ctx.ev(1)
    b = lib_call(parse_formula, "(" + text + ")")
    if b[0] != "ok":
        out.append(obs("formula|wrap-rejected", {"text": text, "parsed_as": str(a[1]), "error": b[1]}))
    elif not equivalent(from_pysmt(a[1]), from_pysmt(b[1])):
        out.append(obs("formula|wrap-meaning", {"text": text, "plain": str(a[1]), "wrapped": str(b[1])}))


def check_conds(kind, libconds, refconds, text, ctx, out):
    from parser.Wrappers import parse_queries
    keys = list(libconds.keys())
    if keys != list(range(1, len(refconds) + 1)):
        out.append(obs(f"{kind}|keys", {"text": text, "keys": keys, "expected_n": len(refconds)}))
        return
    for k, (B, A) in zip(keys, refconds):
        c = libconds[k]
        ctx.ev(1)
        gb, ga = from_pysmt(c.consequence), from_pysmt(c.antecedence)
        if not equivalent(gb, B) or not equivalent(ga, A):
            swapped = equivalent(gb, A) and equivalent(ga, B)
            out.append(obs(f"{kind}|{'swapped' if swapped else 'meaning'}",
                           {"text": text, "key": k, "reference": fm.cond_text(B, A), "parsed": str(c)}))
            continue
        # text representation re-parses to an equivalent conditional
        rt = lib_call(parse_queries, str(c))
        if rt[0] != "ok" or len(rt[1].conditionals) != 1:
            out.append(obs(f"{kind}|text-roundtrip-rejected", {"text": text, "str": str(c), "error": str(rt[1])[:200]}))
        else:
            c2 = list(rt[1].conditionals.values())[0]
            if not (equivalent(from_pysmt(c2.consequence), B) and equivalent(from_pysmt(c2.antecedence), A)):
                out.append(obs(f"{kind}|text-roundtrip-meaning", {"text": text, "str": str(c)}))


def run_case(case, ctx):
    from parser.Wrappers import parse_belief_base, parse_queries
    bridge.lib()
    kind = case["kind"]
    text = case["text"]
    out = []
    ctx.stratum(f"kind:{kind}")
    if kind in ("formula", "bad-formula", "fuzz-formula"):
        expect = fm.from_json(case["expect"]) if case.get("expect") else None
        r = check_formula_text(text, ctx, out, expect)
        wrap_relation(text, ctx, out)
        if kind == "bad-formula":
            if r is None:
                ctx.nt(text)
                ctx.stratum(f"malformed:{case.get('mutation')}")
            else:
                ctx.stratum("mutant-still-wellformed")
        elif r is not None and precedence_sensitive(r):
            ctx.nt(text)
            ctx.stratum("precedence-sensitive")
            if "/*" in text:
                ctx.stratum("with-comment")
    elif kind in ("base", "bad-base"):
        try:
            ref = clref.parse_base(text)
        except clref.Reject as e:
            ref = None
            why = str(e)
        if case.get("conds") is not None and kind == "base":
            exp = [(fm.from_json(B), fm.from_json(A)) for B, A in case["conds"]]
            if ref is None or ref[0] != case["sig"] or ref[1] != case["name"] or len(ref[2]) != len(exp) or \
                    not all(equivalent(b1, b2) and equivalent(a1, a2) for (b1, a1), (b2, a2) in zip(ref[2], exp)):
                raise HarnessError(f"reference reader disagrees with construction on base text {text!r}")
        ctx.ev(1)
        got = lib_call(parse_belief_base, text)
        if ref is None:
            ctx.nt(text)
            ctx.stratum(f"malformed:{case.get('mutation')}")
            if got[0] == "ok":
                out.append(obs(f"base|accepts-malformed:{case.get('mutation')}",
                               {"text": text, "reference": why,
                                "parsed": [str(c) for c in got[1].conditionals.values()]}))
        else:
            if kind == "bad-base":
                ctx.stratum("mutant-still-wellformed")
            if "\r\n" in text:
                ctx.stratum("crlf")
            if "//" in text:
                ctx.stratum("line-comment")
            if got[0] != "ok":
                out.append(obs("base|rejects-wellformed", {"text": text, "error": got[1]}))
            else:
                bb = got[1]
                if list(bb.signature) != ref[0]:
                    out.append(obs("base|signature", {"text": text, "got": list(bb.signature), "expected": ref[0]}))
                if bb.name != ref[1]:
                    out.append(obs("base|name", {"text": text, "got": bb.name, "expected": ref[1]}))
                check_conds("base", bb.conditionals, ref[2], text, ctx, out)
                if len(ref[2]) >= 2:
                    ctx.nt(text)
                # the caller owns the returned object: changing it must not leak into a later parse
                bb.conditionals[max(bb.conditionals, default=0) + 7] = next(iter(bb.conditionals.values()), None)
                bb.conditionals.pop(1, None)
                bb.signature.append("zzLeak")
                ctx.ev(1)
                ctx.stratum("reparse-after-mutation")
                again = lib_call(parse_belief_base, text)
                if again[0] != "ok":
                    out.append(obs("base|reparse-rejected", {"text": text, "error": again[1]}))
                elif list(again[1].signature) != ref[0] or list(again[1].conditionals.keys()) != list(range(1, len(ref[2]) + 1)):
                    out.append(obs("base|reparse-sees-earlier-mutation",
                                   {"text": text, "signature": list(again[1].signature),
                                    "keys": list(again[1].conditionals.keys())}))
    elif kind == "queries":
        exp = [(fm.from_json(B), fm.from_json(A)) for B, A in case["conds"]]
        ref = clref.parse_query_list(text)
        if len(ref) != len(exp):
            raise HarnessError("reference reader disagrees with construction on query text")
        ctx.ev(1)
        got = lib_call(parse_queries, text)
        if got[0] != "ok":
            out.append(obs("queries|rejects-wellformed", {"text": text, "error": got[1]}))
        else:
            check_conds("queries", got[1].conditionals, ref, text, ctx, out)
            if len(ref) >= 2:
                ctx.nt(text)
            got[1].conditionals.pop(1, None)
            ctx.ev(1)
            again = lib_call(parse_queries, text)
            if again[0] != "ok" or list(again[1].conditionals.keys()) != list(range(1, len(ref) + 1)):
                out.append(obs("queries|reparse-sees-earlier-mutation", {"text": text}))
    if ctx.record and len(text) > 12:
        ctx.sample({"kind": kind, "text": text})
    return out


def shrink(case):
    text = case["text"]
    if case["kind"] == "queries":
        return
    kind = "fuzz-formula" if "formula" in case["kind"] else "bad-base"
    n = len(text)
    for size in sorted({n // 2, n // 4, 8, 3, 1}, reverse=True):
        if size < 1:
            continue
        for i in range(0, n - size + 1, max(1, size // 2)):
            c = {"kind": kind, "text": text[:i] + text[i + size:]}
            if case.get("mutation"):
                c["mutation"] = case["mutation"]
            yield c


def required_strata(tier):
    return (["kind:formula", "kind:base", "kind:queries", "precedence-sensitive", "with-comment", "crlf",
             "line-comment"] + [f"malformed:{m}" for m in MUT_FORMULA + MUT_BASE])


# --------------------------------------------------------------------------------------
# thorough tier: coverage-guided fuzzing of parse_formula (atheris), oracle inside the target
# --------------------------------------------------------------------------------------

def extra_cases(tier, shard, nshards, ctx):
    if tier != "thorough":
        return
    yield from fuzz_campaign(shard, nshards, ctx)


TOKENS = ["a", "b", "c", "a1", "Top", "Bottom", "!", ",", ";", "(", ")", " ", "!a", "(a", "b)", ",b", ";c",
          "a,b", "a;b", "Topa", "  ", "/*x*/", "ab"]


def decode_tokens(data):
    return "".join(TOKENS[b % len(TOKENS)] for b in data[:64])


ALPHABET = "abc1!,;() TopBm"


def decode_bytes(data):
    return "".join(ALPHABET[b % len(ALPHABET)] for b in data[:80])


def fuzz_campaign(shard, nshards, ctx):
    """runs atheris in a child process (libFuzzer owns the process); failing inputs come
    back as cases which the ordinary run_case then re-judges"""
    import json
    import os
    import subprocess
    import sys
    import tempfile
    here = os.path.dirname(os.path.dirname(os.path.dirname(os.path.abspath(__file__))))
    try:
        import atheris  # noqa: F401
    except Exception:
        ctx.extra["atheris_unavailable"] = 1
        return
    decoder = "tokens" if shard % 2 == 0 else "bytes"
    seeded = (shard // 2) % 2 == 1
    d = tempfile.mkdtemp(prefix="verif-c10-fuzz-")
    corpus = os.path.join(d, "corpus")
    os.makedirs(corpus)
    if seeded:
        for i, s in enumerate([b"\x00\x07\x01", b"\x02\x08\x00\x07\x01", b"\x06\x09\x00\x08\x01\x0a"]):
            open(os.path.join(corpus, f"s{i}"), "wb").write(s)
    outp = os.path.join(d, "found.jsonl")
    runs = 60000
    cmd = [sys.executable, "-m", "vlib.props.c10_fuzz", decoder, outp, corpus,
           f"-runs={runs}", f"-seed={ctx.seed * 100 + shard + 1}", "-max_len=64", "-verbosity=0"]
    env = dict(os.environ)
    env["PYTHONPATH"] = here + os.pathsep + os.path.join(here, ".deps") + os.pathsep + env.get("PYTHONPATH", "")
    cp = subprocess.run(cmd, cwd=here, env=env, capture_output=True, text=True)
    ctx.extra["atheris_runs"] = ctx.extra.get("atheris_runs", 0) + runs
    ctx.extra["atheris_campaigns"] = ctx.extra.get("atheris_campaigns", 0) + 1
    ctx.stratum(f"atheris:{decoder}:{'seeded' if seeded else 'empty'}-corpus")
    if os.path.exists(outp):
        seen = set()
        for line in open(outp):
            rec = json.loads(line)
            if rec["text"] in seen:
                continue
            seen.add(rec["text"])
            if rec.get("stat"):
                ctx.extra["atheris_execs"] = ctx.extra.get("atheris_execs", 0) + rec["stat"]
                continue
            yield {"kind": "fuzz-formula", "text": rec["text"]}
    import shutil
    shutil.rmtree(d, ignore_errors=True)
