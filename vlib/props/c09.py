"""C09 - every operator satisfies direct inference and the System P postulates (RM for Z, lex)."""

from hypothesis import strategies as st

from .. import bridge, fm, gen, rel
from ..core import obs
from .c12 import equiv_rewrite

ID = "C09"
LEVEL = "exploration"
RULE = ("Adaptive generation inside one Hypothesis example: (1) a premise pool is built from the "
        "base (its own conditionals, specialised / weakened / chained variants over 2-3 shared "
        "antecedents, literal consequents and their negations) and asked on one manager; (2) from "
        "the conditionals answered True, instances of Direct Inference, Reflexivity, "
        "Supraclassicality, Left Logical Equivalence, Right Weakening, And, Or, Cautious "
        "Monotony, Cut and (System Z, lex) Rational Monotony are instantiated, in strict mode "
        "also (Bottom|A) for satisfiable A; (3) the conclusions are asked on a FRESH manager. "
        "Operators x back-ends x modes rotate (5 configurations per case; c-inference strict "
        "only). Sources: small strongly/weakly consistent generated bases, medium bases, corpora, "
        "and 'distinguishing inputs' (vlib/hard.py: queries on which the System W / lexicographic "
        "procedure and a plausible wrong variant of it disagree; asked on that operator's two "
        "back-ends). Queries of small cases are TARGETS: their falsifying worlds are split in two "
        "(phi_1, phi_2) and (B|A&(B;phi_i)), (B;phi_i|A) join the premise pool, so that the target "
        "follows by Or and implies each companion by Right Weakening + Cautious Monotony. "
        "evaluations = postulate instances whose premises held and whose conclusion was asked. "
        "non-trivial = such an instance whose conclusion is not decided by a short cut (A, A&B, "
        "A&notB satisfiable); distinct by (base, cfg, mode, postulate, conclusion text).")
ASSUMPTIONS = ["the postulates hold for these operators (property statement / literature)",
               "entailment and equivalence between formulas used in instances hold by construction and are "
               "re-checked by truth table for formulas over <= 12 atoms"]
TECHNIQUE = "property-based testing with adaptively instantiated implication oracles (postulates) between answers"

ALL = [("p", False), ("z", False), ("w-rc2", False), ("w-z3", False), ("lex-rc2", False), ("lex-z3", False),
       ("c", False), ("p", True), ("z", True), ("w-rc2", True), ("w-z3", True), ("lex-rc2", True), ("lex-z3", True)]
POSTULATES = ["DI", "REF", "SUPRA", "LLE", "RW", "AND", "OR", "CM", "CUT", "RM", "CP"]


def budget(tier):
    return {"examples": 192 if tier == "quick" else 3000, "hard_examples": 192 if tier == "quick" else 2400,
            "soft_seconds": 300 if tier == "quick" else 3000}


def _search_lex(seed):
    """bases from C04's oracle-guided search (cardinality ties, several minimum-cardinality sets)"""
    from . import c04
    c = dict(c04.search(seed))
    c["lexsearch"] = True
    return c


def _hard(seed):
    """distinguishing inputs for the System W / lexicographic procedures (vlib/hard.py); the found
    query becomes a target of the postulate instances (see split_companions)"""
    from .. import hard
    c = dict(hard.any_kind(seed))
    c["hard"] = True
    return c


def split_companions(B, A, atoms, rnd):
    """For a target (B|A) whose falsifying worlds F are split into F1 + F2 (phi_i = the worlds of
    F_i): premises (B|A&(B;phi_1)), (B|A&(B;phi_2)) give the target back by Or (up to equivalence
    of the antecedent), and the target gives each of them by Right Weakening + Cautious Monotony
    ((B|A), (B;phi_i|A) => (B|A&(B;phi_i))).  So a wrong answer on the target in either direction
    contradicts a postulate unless the companions are wrong in the same way."""
    from .. import hard
    if len(atoms) > 7:
        return []
    ats = list(atoms)
    a, b = fm.tt(A, ats), fm.tt(B, ats)
    F = list(fm.worlds_of(a & ~b & fm.full(len(ats))))
    V = list(fm.worlds_of(a & b))
    if not V or len(F) < 2 or len(F) > 12:
        return []
    rnd.shuffle(F)
    h = rnd.randint(1, len(F) - 1)
    out = [(B, A)]
    for part in (F[:h], F[h:]):
        phi = fm.disj([hard.cube(w, ats) for w in sorted(part)])
        out.append((B, fm.And(A, fm.Or(B, phi))))
        out.append((fm.Or(B, phi), A))
    return out


@st.composite
def _case(draw, tier):
    q = tier == "quick"
    c = dict(draw(st.one_of(
        gen.strong_case(2, 5, 6, qlo=1, qhi=1),
        gen.strong_case(2, 5, 6, qlo=1, qhi=1),
        gen.weak_case(2, 5, 6, qlo=1, qhi=1),
        st.integers(0, 2**40).map(_search_lex),
        rel.medium_case(8, 16 if q else 30, 16 if q else 30, nq=1),
        rel.corpus_case(20 if q else 60, 20 if q else 60, nq=1),
        rel.corpus_case(6, 10, families=["484", "AO", "birds"], nq=1),
    )))
    c["pseed"] = draw(st.integers(0, 2**32))
    c["rot"] = draw(st.integers(0, len(ALL) - 1))
    return c


def strategy(tier):
    return _case(tier)


@st.composite
def _hard_case(draw):
    c = dict(draw(st.integers(0, 2**40).map(_hard)))
    c["pseed"] = draw(st.integers(0, 2**32))
    c["rot"] = draw(st.integers(0, len(ALL) - 1))
    return c


def hard_strategy(tier):
    return _hard_case()


def _sat(f):
    ats = fm.atoms_of(f)
    if len(ats) > 14:
        return None
    return fm.tt(f, ats) != 0


def _nonvac(B, A):
    ats = sorted(set(fm.atoms_of(A)) | set(fm.atoms_of(B)))
    if len(ats) > 14:
        return True
    a, b = fm.tt(A, ats), fm.tt(B, ats)
    return bool(a & b) and bool(a & ~b & fm.full(len(ats)))


def build_pool(atoms, base, rnd):
    used = gen.all_atoms([], base, [])
    lits_atoms = used or atoms
    conds = [(B, A) for _, B, A in base]
    ants = []
    for B, A in rnd.sample(conds, min(3, len(conds))):
        if A not in ants:
            ants.append(A)
    pool = []
    for A in ants:
        own = [B for B, A2 in conds if A2 == A]
        other = [B for B, _ in rnd.sample(conds, min(2, len(conds)))]
        x = gen.r_literal(rnd, lits_atoms)
        y = gen.r_literal(rnd, lits_atoms)
        cons = own[:2] + other + [x, fm.Not(x), y, fm.Not(y)]
        for C in cons:
            pool.append((C, A))
        for B in own[:1] + [x]:
            for C in other[:1] + [y]:
                pool.append((C, fm.And(A, B)))       # for CUT / CM
    for B, A in conds[:6]:
        pool.append((B, A))
    # shared consequent with different antecedents (for OR)
    if len(conds) >= 2:
        (B1, A1), (B2, A2) = rnd.sample(conds, 2)
        pool.append((fm.Or(B1, B2), A1))
        pool.append((fm.Or(B1, B2), A2))
    seen, out = set(), []
    for B, A in pool:
        t = fm.cond_text(B, A)
        if t not in seen:
            seen.add(t)
            out.append((B, A))
    return out[:36]


def instantiate(atoms, base, pool, ans, cfg, weakly, rnd):
    """-> list of (postulate, conclusion (B,A), expected, premises text)"""
    used = gen.all_atoms([], base, []) or atoms
    T = [(B, A) for (B, A), r in zip(pool, ans) if r]
    Fs = [(B, A) for (B, A), r in zip(pool, ans) if not r]
    inst = []
    for _, B, A in base[:8]:
        inst.append(("DI", (B, A), True, []))
    for B, A in rnd.sample(pool, min(2, len(pool))):
        x = gen.r_literal(rnd, used)
        inst.append(("REF", (A, A), True, []))
        inst.append(("SUPRA", (fm.Or(A, x), A), True, []))
        inst.append(("SUPRA", (A, fm.And(A, x)), True, []))
    for B, A in T[:10]:
        p = [fm.cond_text(B, A)]
        inst.append(("LLE", (B, equiv_rewrite(A, rnd, used)), True, p))
        x = gen.r_literal(rnd, used)
        inst.append(("RW", (fm.Or(B, x), A), True, p))
        if B[0] == "a":
            inst.append(("RW", (B[1], A), True, p))
        inst.append(("RW", (equiv_rewrite(B, rnd, used), A), True, p))
    byant = {}
    for B, A in T:
        byant.setdefault(A, []).append(B)
    for A, Bs in byant.items():
        for i in range(len(Bs)):
            for j in range(len(Bs)):
                if i < j and len(inst) < 90:
                    p = [fm.cond_text(Bs[i], A), fm.cond_text(Bs[j], A)]
                    inst.append(("AND", (fm.And(Bs[i], Bs[j]), A), True, p))
                if i != j and len(inst) < 90:
                    p = [fm.cond_text(Bs[i], A), fm.cond_text(Bs[j], A)]
                    inst.append(("CM", (Bs[j], fm.And(A, Bs[i])), True, p))
    bycons = {}
    for B, A in T:
        bycons.setdefault(B, []).append(A)
    for C, As in bycons.items():
        for i in range(len(As)):
            for j in range(i + 1, len(As)):
                if len(inst) < 110:
                    inst.append(("OR", (C, fm.Or(As[i], As[j])), True,
                                 [fm.cond_text(C, As[i]), fm.cond_text(C, As[j])]))
    Tset = set(T)
    for B, A in T:
        for C, A2 in T:
            if A2 == fm.And(A, B) and len(inst) < 130:
                inst.append(("CUT", (C, A), True, [fm.cond_text(B, A), fm.cond_text(C, A2)]))
    if cfg.split("-")[0] in ("z", "lex"):
        Fset = set(Fs)
        for C, A in T:
            for nB, A2 in Fs:
                if A2 == A and nB[0] == "n" and len(inst) < 150:
                    inst.append(("RM", (C, fm.And(A, nB[1])), True,
                                 [fm.cond_text(C, A), "not " + fm.cond_text(nB, A)]))
    if not weakly:
        for B, A in rnd.sample(pool, min(4, len(pool))):
            if _sat(A):
                inst.append(("CP", (fm.F, A), False, []))
    return inst


def run_case(case, ctx):
    m = rel.materialise(case, weak_ok=True)
    if m is None:
        ctx.stratum("skipped:unusable")
        return []
    atoms, base, _ = m
    if not base:
        return []
    from inference.consistency_sat import consistency_indices
    part, _ = consistency_indices(bridge.mk_bb(atoms, base), "z3", True)
    if part is False:
        return []
    strongly = not part[-1]
    rnd = gen.rng(case.get("pseed", 0))
    src = case.get("family") or ("medium" if case.get("medium") else "small")
    ctx.stratum(f"source:{src}")
    pool = build_pool(atoms, base, rnd)
    if case.get("lexsearch"):
        # the searched query and its Cut / CM companions join the premise pool
        ctx.stratum("source:lex-search")
        for _, B, A in gen.case_parts(case)[2][:2]:
            x = gen.r_literal(rnd, atoms)
            pool = [(B, A), (x, A), (B, fm.And(A, x)), (fm.Not(x), A), (B, fm.And(A, fm.Not(x)))] + pool
    if src == "small":
        # the case's own queries are targets: their split companions lead the premise pool
        used = gen.all_atoms(atoms, base, [])
        lead = []
        for _, B, A in gen.case_parts(case)[2][:2]:
            if set(fm.atoms_of(A)) | set(fm.atoms_of(B)) <= set(used):
                lead += split_companions(B, A, used, rnd)
        if lead:
            ctx.stratum("targets:split-companions")
            pool = lead + [x for x in pool if x not in lead]
            pool = pool[:14] if case.get("hard") else pool[:44]
    if not pool:
        return []
    pq = [(i + 1, B, A) for i, (B, A) in enumerate(pool)]
    rot = case.get("rot", 0)
    chosen = [ALL[(rot + 3 * i) % len(ALL)] for i in range(5)]
    if case.get("hard") and ":" in str(case.get("searched")):
        ctx.stratum("source:distinguishing-input")
        ctx.extra["reference_only_candidates"] = ctx.extra.get("reference_only_candidates", 0) + case.get("tried", 0)
        op = case["searched"].split(":")[0]
        wk = bool(case.get("rot", 0) % 2)
        chosen = [(f"{op}-rc2", False), (f"{op}-z3", False), (f"{op}-{'z3' if wk else 'rc2'}", True)]
    out = []
    bid = gen.case_hash([case.get("corpus"), [[k, fm.to_json(B), fm.to_json(A)] for k, B, A in base]])
    btxt = [f"{kk}:{fm.cond_text(b, a)}" for kk, b, a in base][:30]
    for cfg, weakly in chosen:
        if not strongly and not weakly:
            continue
        if cfg == "c" and len(base) > 20:
            continue
        ctx.stratum(f"cfg:{cfg}|weakly={weakly}")
        r1 = bridge.answers(atoms, base, pq, cfg, weakly=weakly)
        if r1[0] == "exc":
            out.append(obs(f"{cfg}|weakly={weakly}|{r1[1]}", {"message": r1[2], "base": btxt}))
            continue
        ans = [bool(x) for x in r1[1]]
        inst = instantiate(atoms, base, pool, ans, cfg, weakly, gen.rng(case.get("pseed", 0) + 1))
        # unique conclusion texts (the result table is keyed by text)
        concl, seen = [], {}
        for name, (B, A), exp, prem in inst:
            t = fm.cond_text(B, A)
            if t not in seen:
                seen[t] = len(concl)
                concl.append((B, A))
        cq = [(i + 1, B, A) for i, (B, A) in enumerate(concl)]
        r2 = bridge.answers(atoms, base, cq, cfg, weakly=weakly)   # fresh manager
        if r2[0] == "exc":
            out.append(obs(f"{cfg}|weakly={weakly}|{r2[1]}", {"message": r2[2], "base": btxt, "phase": 2}))
            continue
        got = [bool(x) for x in r2[1]]
        for name, (B, A), exp, prem in inst:
            ctx.ev(1)
            ctx.stratum(f"postulate:{name}")
            g = got[seen[fm.cond_text(B, A)]]
            if _nonvac(B, A) or name == "CP":
                ctx.nt(repr((bid, cfg, weakly, name, fm.cond_text(B, A))))
                ctx.stratum("instance:nontrivial")
            if g != exp:
                out.append(obs(f"{name}|{cfg}|weakly={weakly}",
                               {"postulate": name, "premises": prem, "conclusion": fm.cond_text(B, A),
                                "expected": exp, "got": g, "base": btxt, "corpus": case.get("corpus")}))
    if ctx.record and len(base) >= 2:
        ctx.sample({"source": src, "base": btxt[:6], "pool": [fm.cond_text(B, A) for B, A in pool][:8],
                    "cfgs": [f"{c}|weakly={w}" for c, w in chosen]})
    return out


def shrink(case):
    if case.get("corpus"):
        return
    for c in gen.shrink_candidates(case):
        yield gen.renumber(c)


def required_strata(tier):
    return [f"postulate:{p}" for p in POSTULATES] + ["source:small", "source:medium", "source:random_large",
                                                      "instance:nontrivial", "source:distinguishing-input", "targets:split-companions"]
