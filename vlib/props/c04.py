"""C04 - lexicographic inference equals the lexicographic definition (both back-ends)."""

from hypothesis import strategies as st

from .. import fm, gen, ref
from . import opsem

ID = "C04"
LEVEL = "exploration"
RULE = ("Two sources: (1) Hypothesis-generated strongly consistent bases as C01; (2) oracle-guided "
        "stratified search: a Hypothesis-drawn integer seeds a deterministic stream of literal "
        "bases (3-5 atoms, 4-8 conditionals) that is filtered *by the reference only* until a "
        "(base, query) falls into the wanted stratum (lex!=W; cardinality tie at a layer; >=2 "
        "minimum-cardinality sets with different continuations on the verifying / falsifying "
        "side; the all-pairs recursion differs from the definition; ties down to layer 0); only "
        "then is the library run, with both back-ends. Oracle = least per-layer falsification "
        "count vector (highest layer first) over A&B worlds < least over A&notB worlds. "
        "(3) 'distinguishing inputs' (vlib/hard.py): queries built from chosen world sets on which "
        "the recursive lexicographic procedure and one of 18 plausible wrong variants of it (only the "
        "first candidate followed, all/any swapped, all inclusion-minimal sets instead of the "
        "minimum-cardinality ones, tie decides, duplicates counted once, clause cost instead of "
        "cardinality, early stop of a cost-ordered enumeration, ...) disagree. "
        "evaluations = answers compared; non-trivial = A, A&B, A&notB satisfiable; distinct by "
        "(atom count, base masks, query masks).")
ASSUMPTIONS = ["the stratum 'min-card-set-after-larger' uses a modelled clause cost (false conjuncts of a conjunctive consequent) only to choose inputs; the oracle stays the definition",
               "CPython, Hypothesis, harness reference semantics (self-checked p<=Z<=W<=lex)",
               "programmatic construction with parser conventions"]
CFGS = ["lex-rc2", "lex-z3"]
STRATA = ["lex!=W", "card-tie", "multi-v-diff-cont", "multi-f-diff-cont", "allpairs!=def",
          "tie-to-layer-0", "min-card-set-after-larger"]


def budget(tier):
    return {"examples": 2400 if tier == "quick" else 16000, "hard_examples": 480 if tier == "quick" else 6000,
            "soft_seconds": 240 if tier == "quick" else 2400}


def features(M, a, v, f):
    out = set()
    if not (a and v and f) or not M.layers:
        return out
    lx = M.lex(a, v, f)
    if lx != M.system_w(a, v, f):
        out.add("lex!=W")
    ft = M.lex_features(v, f)
    if ft.get("tie_depth", 0) >= 1:
        out.add("card-tie")
    if ft.get("multi_v") and ft.get("diff_cont"):
        out.add("multi-v-diff-cont")
    if ft.get("multi_f") and ft.get("diff_cont"):
        out.add("multi-f-diff-cont")
    if ft.get("tie_depth", 0) >= len(M.layers):
        out.add("tie-to-layer-0")
    if ref.lex_allpairs(M, v, f) != lx:
        out.add("allpairs!=def")
    return out


def search(seed):
    """reference-only search for a case in stratum STRATA[seed % len]"""
    want = STRATA[seed % len(STRATA)]
    if want == "min-card-set-after-larger":
        from .. import search as S
        return S.worldset_search(seed, want, max_candidates=20000, need_lex_tie=True)
    rnd = gen.rng(seed)
    tried = 0
    best = None
    for _ in range(8000):
        n = rnd.randint(3, 5)
        m = rnd.randint(4, 8)
        atoms, conds = gen.r_literal_base(rnd, n, m, max_ant=2)
        conds = gen.repair_strong(atoms, conds)
        if len(conds) < 3:
            continue
        sem = ref.Sem(atoms, conds)
        M = ref.Model(sem)
        if len(M.layers) < 2:
            continue
        qs = [gen.r_query(rnd, atoms) for _ in range(8)]
        tried += 1
        for B, A in qs:
            a, v, f = sem.qmasks(B, A)
            if want in features(M, a, v, f):
                others = [q for q in qs if q != (B, A)][:2]
                return gen.mk_case(atoms, conds, [(B, A)] + others, searched=want, tried=tried)
        if best is None:
            best = gen.mk_case(atoms, conds, qs[:3], searched="none", tried=tried)
    if best is None:   # practically unreachable: no multi-layer base among thousands of candidates
        best = gen.mk_case(["a", "b"], [(fm.V("b"), fm.V("a"))], [(fm.V("b"), fm.V("a"))], searched="none")
    best["tried"] = tried
    return best


def _hard(seed):
    from .. import hard
    return hard.any_kind(seed, [k for k in hard.KINDS if k.startswith("lex:")])


def strategy(tier):
    return st.one_of(gen.strong_case(1, 4 if tier == "quick" else 5, 6),
                     gen.multiclause_case(5),
                     st.integers(0, 2**40).map(search),
                     st.integers(0, 2**40).map(search))


def hard_strategy(tier):
    return st.integers(0, 2**40).map(_hard)


def _strata(ctx, M, q, BA, e):
    a, v, f = q
    for s in features(M, a, v, f):
        ctx.stratum(s)


def run_case(case, ctx):
    if case.get("searched") == "min-card-set-after-larger":
        ctx.stratum("min-card-set-after-larger")
    if str(case.get("searched", "")).startswith("lex:"):
        ctx.stratum("source:distinguishing-input")
    if case.get("searched"):
        ctx.stratum("source:search")
        ctx.extra["reference_only_candidates"] = ctx.extra.get("reference_only_candidates", 0) + case.get("tried", 0)
    else:
        ctx.stratum("source:direct")
    return opsem.compare(ID, case, ctx, CFGS, strata_fn=_strata)



def extra_cases(tier, shard, nshards, ctx):
    if tier != "thorough":
        return
    yield from opsem.corpus484(shard, nshards, ctx)


def shrink(case):
    for c in gen.shrink_candidates(case):
        c = gen.renumber(c)
        c.pop("searched", None)
        c.pop("tried", None)
        yield c


describe = opsem.describe


def required_strata(tier):
    return ["expected=True", "expected=False", "source:distinguishing-input"] + STRATA
