"""C06 - consistency verdicts and tolerance partitions are exact; diagnostics; refusal."""

from hypothesis import strategies as st

from .. import bridge, fm, gen, ref
from ..core import obs

ID = "C06"
LEVEL = "exploration"
RULE = ("Hypothesis-generated bases WITHOUT repair (strongly consistent / weakly but not strongly "
        "consistent / rejected in both modes / empty), obtained by adding complementary pairs, "
        "(Bottom|phi), unverifiable conditionals, (Bottom|Top), duplicates to a drawn base; fact "
        "lists of 0-3 formulas (strings in .cl syntax and formula objects). Checked: (1) "
        "consistency and consistency_indices in both modes against the reference ordered "
        "partition (layers compared as sets of keys; verdict False iff the reference has none); "
        "(2) every flag of consistency_diagnostics in the four (extended, uses_facts) modes "
        "against its definition on the base and on the base augmented with (Bottom|not fact); "
        "(3) refusal: for an empty base or one inconsistent for the selected mode every operator "
        "x back-end x mode raises instead of returning a table. evaluations = individual "
        "comparisons (partition, flag, refusal). non-trivial = >=2 layers, non-empty infinity "
        "layer or inconsistent; distinct by (atom count, base masks, fact masks).")
ASSUMPTIONS = ["CPython, Hypothesis, harness reference partition (world enumeration)",
               "facts range over the signature (other atoms are documented to raise)",
               "'refuses with an error' accepts any exception type"]
REFUSE_CFGS = ["p", "z", "w-rc2", "w-z3", "lex-rc2", "lex-z3", "c"]


def budget(tier):
    return {"examples": 4000 if tier == "quick" else 24000,
            "soft_seconds": 200 if tier == "quick" else 2000}


@st.composite
def _big_case(draw, tier):
    """6-10 atoms (up to 1024 worlds), 8-20 literal conditionals, some weak material: deeper
    partitions than the small family reaches"""
    n = draw(st.integers(6, 9 if tier == "quick" else 10))
    atoms = [f"p{i}" for i in range(n)]
    rnd = gen.rng(draw(st.integers(0, 2**32)))
    conds = []
    for _ in range(rnd.randint(8, 20)):
        conds.append((gen.r_literal(rnd, atoms), gen.r_conj(rnd, atoms, rnd.randint(1, 3))))
    mode = draw(st.integers(0, 3))
    if mode in (0, 3):
        # an exception chain of drawn length gives that many layers
        k = rnd.randint(3, min(6, n - 1))
        y, xs, cur = fm.V(atoms[0]), [fm.V(a) for a in atoms[1:k + 1]], []
        for i, x in enumerate(xs):
            cur.append(x)
            conds.append((y if i % 2 == 0 else fm.Not(y), fm.conj(cur)))
    if mode == 0:
        conds = gen.repair_strong(atoms, conds)
    if mode in (1, 2):
        for _ in range(rnd.randint(1, 2)):
            phi = gen.r_conj(rnd, atoms, rnd.randint(1, 2))
            conds.append(rnd.choice([(fm.F, phi), (gen.r_literal(rnd, atoms), fm.And(phi, fm.Not(phi)))]))
    rnd.shuffle(conds)
    facts = [[fm.to_json(gen.r_literal(rnd, atoms)), bool(rnd.getrandbits(1))] for _ in range(draw(st.integers(0, 2)))]
    q = [(gen.r_literal(rnd, atoms), gen.r_conj(rnd, atoms, 2))]
    return gen.mk_case(atoms, conds, q, facts=facts, big=True)


@st.composite
def _case(draw, tier):
    if draw(st.integers(0, 5)) == 0:
        return draw(_big_case(tier))
    atoms = draw(gen.atoms_st(1, 4 if tier == "quick" else 5))
    kind = draw(st.integers(0, 11))
    if kind == 0:
        conds = []
    else:
        conds = draw(gen.raw_base(atoms, 6, consts=True, unfals=True))
        if kind in (1, 2, 3):
            conds = gen.repair_strong(atoms, conds)
    if conds and draw(st.integers(0, 2)) == 0:
        for _ in range(draw(st.integers(1, 2))):
            phi = draw(gen.formula(atoms, gen.SHAPES_NOCONST, consts=False))
            x = draw(gen.literal(atoms))
            conds.append(draw(st.sampled_from([(fm.F, phi), (x, fm.And(phi, fm.Not(phi))),
                                               (fm.F, fm.T), (fm.Not(x), fm.And(x, phi))])))
            if draw(st.integers(0, 2)) == 0:
                conds += [(x, phi), (fm.Not(x), phi)]
        conds = list(draw(st.permutations(conds)))
    nf = draw(st.integers(0, 3))
    facts = []
    for _ in range(nf):
        f = draw(gen.formula(atoms, gen.SHAPES_NOCONST + [("T", 2), ("F", 1)]))
        facts.append([fm.to_json(f), draw(st.booleans())])
    q = draw(gen.query_list(atoms, conds, 1, 1, outside=False))
    return gen.mk_case(atoms, conds, q, facts=facts)


def strategy(tier):
    return _case(tier)


def _keys_of_layers(part, bb):
    idmap = {id(c): k for k, c in bb.conditionals.items()}
    return [frozenset(idmap[id(c)] for c in layer) for layer in part]


def _ref_layers(sem, keys, extended):
    r = ref.partition(sem.ver, sem.fal, sem.full, extended=extended)
    if r is None:
        return None
    layers = r[0] if extended else r
    return [frozenset(keys[j] for j in L) for L in layers]


def run_case(case, ctx):
    L = bridge.lib()
    from inference.consistency_diagnostics import consistency_diagnostics
    from inference.consistency_sat import consistency, consistency_indices
    atoms, base, queries = gen.case_parts(case)
    facts = [(fm.from_json(f), as_str) for f, as_str in case.get("facts", [])]
    conds = [(B, A) for _, B, A in base]
    keys = [k for k, _, _ in base]
    sem = ref.Sem(atoms, conds)
    out = []
    bb = bridge.mk_bb(atoms, base)
    refp = {False: _ref_layers(sem, keys, False), True: _ref_layers(sem, keys, True)}
    klass = ("empty" if not base else "strong" if refp[False] is not None else
             "weak-only" if refp[True] is not None else "rejected")
    ctx.stratum(f"base:{klass}")
    nontrivial = klass in ("weak-only", "rejected") or (refp[False] is not None and len(refp[False]) >= 2)
    sig = (len(atoms), tuple(zip(sem.ver, sem.fal)), tuple(fm.tt(f, atoms) for f, _ in facts))
    if nontrivial:
        ctx.nt(repr(sig))
    if refp[False] is not None:
        ctx.stratum(f"layers={min(len(refp[False]), 6)}")
    if case.get("big"):
        ctx.stratum("family:6-10-atoms")
    if refp[True] is not None and refp[True][-1]:
        ctx.stratum("infinity-layer:nonempty")
    btxt = [f"{k}:{fm.cond_text(B, A)}" for k, B, A in base]
    # ---- (1) partitions ------------------------------------------------------------------
    for weakly in (False, True):
        for name, fn in (("consistency", consistency), ("consistency_indices", consistency_indices)):
            ctx.ev(1)
            try:
                res = fn(bb, "z3", weakly)[0]
            except BaseException as e:  # noqa: BLE001
                out.append(obs(f"{name}|weakly={weakly}|{bridge.exc_symptom(e)}", {"base": btxt, "message": str(e)[:200]}))
                continue
            exp = refp[weakly]
            if res is False or exp is None:
                if (res is False) != (exp is None):
                    out.append(obs(f"{name}|weakly={weakly}|verdict", {"base": btxt, "got": repr(res)[:200],
                                                                       "expected": None if exp is None else [sorted(x) for x in exp]}))
                continue
            got = _keys_of_layers(res, bb) if name == "consistency" else [frozenset(x) for x in res]
            if got != exp:
                out.append(obs(f"{name}|weakly={weakly}|partition", {"base": btxt, "got": [sorted(x) for x in got],
                                                                      "expected": [sorted(x) for x in exp]}))
    # ---- (2) diagnostics -----------------------------------------------------------------
    fact_objs = [fm.to_cl(f) if as_str else bridge.to_pysmt(f) for f, as_str in facts]
    fmask = sem.full
    for f, _ in facts:
        fmask &= fm.tt(f, atoms)
    aug = ref.Sem(atoms, conds + [(fm.F, fm.Not(f)) for f, _ in facts])
    augp = {False: ref.partition(aug.ver, aug.fal, aug.full),
            True: ref.partition(aug.ver, aug.fal, aug.full, extended=True)}
    for extended in (False, True):
        for uses in (False, True):
            if uses and not facts:
                continue
            exp = {"belief_base_consistent": refp[False] is not None}
            if extended:
                exp["belief_base_weakly_consistent"] = refp[True] is not None
            if uses:
                exp["facts_consistent"] = fmask != 0
                exp["combination_consistent"] = augp[extended] is not None
                if extended and augp[True] is not None and refp[True] is not None:
                    exp["combination_infinity_increase"] = len(augp[True][0][-1]) > len(refp[True][-1])
            try:
                d = consistency_diagnostics(bb, extended=extended, uses_facts=uses,
                                            facts=fact_objs if uses else None, on_inconsistent="silent")
            except BaseException as e:  # noqa: BLE001
                ctx.ev(1)
                out.append(obs(f"diagnostics|ext={extended},facts={uses}|{bridge.exc_symptom(e)}",
                               {"base": btxt, "facts": [fm.to_cl(f) for f, _ in facts], "message": str(e)[:200]}))
                continue
            if uses:
                ctx.stratum("diagnostics:with-facts")
                if exp.get("combination_infinity_increase"):
                    ctx.stratum("diagnostics:infinity-grew")
                if not exp["facts_consistent"]:
                    ctx.stratum("diagnostics:facts-unsat")
            for k, v in exp.items():
                ctx.ev(1)
                if d.get(k) is None or bool(d.get(k)) != v:
                    out.append(obs(f"diagnostics|ext={extended},facts={uses}|{k}",
                                   {"base": btxt, "facts": [fm.to_cl(f) for f, _ in facts],
                                    "expected": v, "got": d.get(k)}))
            for k in ("belief_base_weakly_consistent", "facts_consistent", "combination_consistent",
                      "combination_infinity_increase"):
                if k not in exp and d.get(k) is not None:
                    # a flag reported although its definition does not apply in this mode
                    if not (k == "combination_infinity_increase"):
                        out.append(obs(f"diagnostics|ext={extended},facts={uses}|spurious:{k}",
                                       {"base": btxt, "got": d.get(k)}))
    # ---- (3) refusal ---------------------------------------------------------------------
    q = queries[:1] or [(1, fm.V(atoms[0]), fm.T)]
    for weakly in (False, True):
        if base and refp[weakly] is not None:
            continue
        for cfg in REFUSE_CFGS:
            if cfg == "c" and weakly:
                continue
            ctx.ev(1)
            ctx.stratum("refusal-checked")
            res = bridge.answers(atoms, base, q, cfg, weakly=weakly)
            if res[0] != "exc":
                out.append(obs(f"refusal|{cfg}|weakly={weakly}|answered",
                               {"base": btxt, "class": klass, "answer": repr(res[1])}))
    if ctx.record and nontrivial:
        ctx.sample({"base": btxt, "class": klass, "facts": [fm.to_cl(f) for f, _ in facts],
                    "strict": None if refp[False] is None else [sorted(x) for x in refp[False]],
                    "extended": None if refp[True] is None else [sorted(x) for x in refp[True]]})
    return out


def shrink(case):
    for c in gen.shrink_candidates(case):
        yield gen.renumber(c)
    fs = case.get("facts", [])
    for i in range(len(fs)):
        c = dict(case)
        c["facts"] = fs[:i] + fs[i + 1:]
        yield c
    if len(case["base"]) == 1:
        c = dict(case)
        c["base"] = []
        yield c


def required_strata(tier):
    return ["family:6-10-atoms", "base:empty", "base:strong", "base:weak-only", "base:rejected", "layers=2", "layers=3", "layers=4",
            "infinity-layer:nonempty", "diagnostics:with-facts", "diagnostics:infinity-grew",
            "diagnostics:facts-unsat", "refusal-checked"]
