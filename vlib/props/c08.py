"""C08 - operators are ordered by inclusion: p <= Z <= W <= lex and p <= c <= W."""

from hypothesis import strategies as st

from .. import fm, gen, rel
from ..core import obs

ID = "C08"
LEVEL = "exploration"
RULE = ("No world enumeration. Sources drawn by Hypothesis: small generated strongly/weakly "
        "consistent bases (as C01/C07), medium generated bases (8-24 atoms quick, up to 40 "
        "thorough; 1-3 literal conditionals; made consistent by dropping the infinity layer the "
        "library's own extended partition reports), shipped corpora (random_large up to 60 atoms "
        "/ 60 conditionals quick and 100/100 thorough, AO examples, birds, all 484 two-atom "
        "inference-relation representatives). For each (base, query batch): answers of every "
        "operator x back-end in both modes, then p=>Z=>W=>lex for every combination of back-ends "
        "and, strict mode, p=>c=>W (c-inference up to 20 conditionals). evaluations = implications checked. "
        "Small bases also come as 'distinguishing inputs' (vlib/hard.py: queries on which the System W "
        "/ lexicographic procedure and a plausible wrong variant of it disagree), kept only when - by "
        "the reference - a neighbouring operator of the chain gives the informative answer (lower "
        "side True or upper side False), so that a slip of the operator in between breaks an "
        "inclusion. non-trivial = query on which the chain is not constant or "
        "p-entailment already says True; distinct by (base identity, query text, mode).")
ASSUMPTIONS = ["the inclusion theorems p<=Z<=W<=lex and p<=c<=W (literature; also self-checked inside "
               "the world-enumeration oracle on every small case of C01-C07)",
               "medium/corpus bases: consistency precondition established by the library's own "
               "partition (checked separately by C06)"]
TECHNIQUE = "property-based testing, relational oracle (inclusion chain between operators), incl. shipped corpora"

CHAIN = [("p", "z"), ("z", "w-rc2"), ("z", "w-z3"), ("w-rc2", "lex-rc2"), ("w-rc2", "lex-z3"),
         ("w-z3", "lex-rc2"), ("w-z3", "lex-z3")]
CHAIN_C = [("p", "c"), ("c", "w-rc2"), ("c", "w-z3")]


def budget(tier):
    return {"examples": 1100 if tier == "quick" else 8000, "hard_examples": 288 if tier == "quick" else 3000,
            "soft_seconds": 300 if tier == "quick" else 3000}


def _search3(seed):
    from .. import search as S
    return S.three_layer_search(seed)


def _informative(M, sem, a, v, f):
    """(reference side, input selection only) some inclusion has a True on its lower side or a
    False on its upper side here, so a wrong answer of the operator in between shows up"""
    from .. import ref
    w, lx = M.system_w(a, v, f), M.lex(a, v, f)
    if w and not M.system_z(a, v, f):
        return ref.c_inference_smt(sem, a, v, f)[0] is True     # c <= W is the only inclusion that can speak
    return w or not lx                                           # W <= lex


def _hard(seed):
    """distinguishing inputs for the System W / lexicographic procedures (vlib/hard.py) on which a
    neighbouring operator of the chain gives the informative answer"""
    from .. import hard
    return hard.any_kind(seed, accept=_informative)


def _layered():
    @st.composite
    def go(draw):
        atoms, conds = draw(gen.layered_base(3, 5, 7))
        return gen.mk_case(atoms, conds, draw(gen.query_list(atoms, conds, 3, 5)))
    return go()


def strategy(tier):
    q = tier == "quick"
    return st.one_of(
        gen.strong_case(1, 5, 6, qlo=3, qhi=5),
        _layered(),
        st.integers(0, 2**40).map(_search3),
        gen.weak_case(1, 5, 6, qlo=3, qhi=5),
        rel.medium_case(8, 24 if q else 40, 24 if q else 40),
        rel.medium_case(8, 24 if q else 40, 24 if q else 40),
        rel.corpus_case(60 if q else 100, 60 if q else 100, nq=3 if q else 5),
        rel.corpus_case(6, 10, families=["484"]),
        rel.corpus_case(6, 10, families=["AO", "birds"]),
    )


def hard_strategy(tier):
    return st.integers(0, 2**40).map(_hard)


def run_case(case, ctx):
    m = rel.materialise(case, weak_ok=True)
    if m is None:
        ctx.stratum("skipped:unusable")
        return []
    atoms, base, queries = m
    if not queries:
        return []
    from inference.consistency_sat import consistency_indices
    from .. import bridge
    part, _ = consistency_indices(bridge.mk_bb(atoms, base), "z3", True)
    if part is False:
        ctx.stratum("skipped:rejected")
        return []
    strongly = not part[-1]
    src = case.get("family") or ("medium" if case.get("medium") else "small")
    ctx.stratum(f"source:{src}")
    if str(case.get("searched", "")).startswith(("w:", "lex:")):
        ctx.stratum("source:distinguishing-input")
        ctx.extra["reference_only_candidates"] = ctx.extra.get("reference_only_candidates", 0) + case.get("tried", 0)
    ctx.stratum(f"size:{rel.size_class(atoms, base)}")
    R = rel.Runner(atoms, base, queries)
    out = []
    bid = gen.case_hash([case.get("corpus"), [[k, fm.to_json(B), fm.to_json(A)] for k, B, A in base]])
    for weakly in ([False, True] if strongly else [True]):
        pairs = list(CHAIN)
        if not weakly and len(base) <= 20:
            pairs += CHAIN_C
        need = sorted({c for p in pairs for c in p})
        ans = {}
        for cfg in need:
            r = R.get(cfg, weakly)
            if r[0] == "exc":
                out.append(obs(f"{cfg}|weakly={weakly}|{r[1]}", {"message": r[2]}))
            else:
                ans[cfg] = [bool(x) for x in r[1]]
        for i, (k, B, A) in enumerate(queries):
            vals = {c: a[i] for c, a in ans.items()}
            if len(set(vals.values())) > 1 or vals.get("p"):
                ctx.nt(repr((bid, fm.cond_text(B, A), weakly)))
                ctx.stratum("chain:not-constant" if len(set(vals.values())) > 1 else "chain:all-true")
            for lo, hi in pairs:
                if lo in ans and hi in ans:
                    ctx.ev(1)
                    if ans[lo][i] and not ans[hi][i]:
                        out.append(obs(f"inclusion:{lo}=>{hi}|weakly={weakly}",
                                       {"query": fm.cond_text(B, A), "answers": vals,
                                        "base": [f"{kk}:{fm.cond_text(b, a)}" for kk, b, a in base][:30],
                                        "corpus": case.get("corpus")}))
    if ctx.record and len(base) >= 3:
        ctx.sample({"source": src, "atoms": len(atoms), "conditionals": len(base), "corpus": case.get("corpus"),
                    "queries": [fm.cond_text(B, A) for _, B, A in queries][:3]})
    return out


def shrink(case):
    if case.get("corpus"):
        t = case.get("take") or []
        for i in range(len(t)):
            c = dict(case)
            c["take"] = [t[i]]
            if c != case:
                yield c
        return
    for c in gen.shrink_candidates(case):
        yield gen.renumber(c)


def required_strata(tier):
    return ["source:small", "source:medium", "source:random_large", "source:484", "source:AO",
            "chain:not-constant", "chain:all-true", "size:medium", "size:large", "source:distinguishing-input"]
