"""C20 - saved ranking functions and metadata reload to behaviourally identical objects."""

import json
import os
import pathlib
import pickle
import shutil
import subprocess
import sys
import tempfile

from hypothesis import strategies as st

from .. import bridge, fm, gen, ref
from ..core import obs
from .c18 import world_str

ID = "C20"
LEVEL = "exploration"
RULE = ("Hypothesis-generated ranking objects of all three kinds (custom rank maps, System Z and "
        "c-representation objects of generated bases) in partial-computation states (drawn subset "
        "of worlds ranked before saving), drawn JSON-representable metadata, drawn queries. "
        "Histories: save_ocf -> load_ocf in the same process; save -> load in a FRESH interpreter "
        "(subprocess reports signature, stored and completed ranks, impacts, acceptance verdicts); "
        "continued lazy computation on original and copy in different orders; export_impacts / "
        "import_impacts / init_with_impacts (JSON and pickle), save_impacts / load_impacts / "
        "init_with_impacts_list; save_metadata / load_metadata with the format inferred from the "
        "suffix. Failure points of the save: target is a directory, parent directory missing, "
        "metadata holding an unpicklable member, and - enumerated - the k-th write of the dump "
        "raising OSError for EVERY k the dump performs, both before anything of that write and "
        "after a drawn prefix of its bytes. After a failed save: the exception surfaces, "
        "_optimizer/_csp are the original objects, ranks/impacts/metadata unchanged, lazy ranking "
        "continues with the right values, a later save to a good path succeeds and reloads equal. "
        "evaluations = individual comparisons. non-trivial = object with >=2 distinct ranks saved "
        "in a partial state (some but not all worlds ranked) or a failed save; distinct by case "
        "hash.")
ASSUMPTIONS = ["behavioural equality = signature, ranks after completion, impacts, acceptance verdicts",
               "write failures are injected through the file object handed to pickle (pathlib.Path.open wrapped from outside)",
               "CPython, Hypothesis"]
TECHNIQUE = "round-trip property testing (same and fresh process), reference ranks from the object's own impacts or a twin object (System Z), enumeration of save failure points"
HERE = os.path.dirname(os.path.dirname(os.path.dirname(os.path.abspath(__file__))))


def budget(tier):
    return {"examples": 560 if tier == "quick" else 5000,
            "soft_seconds": 300 if tier == "quick" else 3000}


json_values = st.recursive(
    st.one_of(st.none(), st.booleans(), st.integers(-10**6, 10**6),
              st.floats(allow_nan=False, allow_infinity=False, width=64), st.text(max_size=8)),
    lambda ch: st.one_of(st.lists(ch, max_size=3), st.dictionaries(st.text(max_size=5), ch, max_size=3)),
    max_leaves=6)


@st.composite
def _case(draw, tier):
    kind = draw(st.sampled_from(["custom", "z", "z", "c", "c"]))
    if kind == "custom":
        n = draw(st.integers(1, 4))
        atoms = gen.ATOMS[:n]
        ranks = [draw(st.integers(0, 4)) for _ in range(1 << n)]
        base = []
        if draw(st.integers(0, 2)) == 0:
            # rank map over only SOME worlds (what conditionalisation / marginalisation produce)
            keep = draw(st.lists(st.integers(0, (1 << n) - 1), min_size=1, max_size=1 << n, unique=True))
            ranks = [r if w in keep else None for w, r in enumerate(ranks)]
    else:
        if kind == "c" and draw(st.integers(0, 3)) == 0:
            # ten or more conditionals (two-digit indices)
            rnd = gen.rng(draw(st.integers(0, 2**32)))
            for _ in range(50):
                atoms, conds = gen.r_literal_base(rnd, rnd.randint(4, 5), rnd.randint(11, 14), max_ant=2)
                conds = gen.repair_strong(atoms, conds)
                if len(conds) >= 10:
                    break
        else:
            atoms, conds = draw(st.one_of(gen.strong_base(1, 4, 4, consts=False), gen.layered_base(2, 3, 4)))
        n = len(atoms)
        ranks = None
        base = [[i, fm.to_json(B), fm.to_json(A)] for i, (B, A) in enumerate(conds, 1)]
    atoms = list(draw(st.permutations(atoms)))      # signature order varies from case to case
    pre = draw(st.lists(st.integers(0, (1 << n) - 1), max_size=1 << n, unique=True))
    meta = draw(st.dictionaries(st.text(alphabet="abcxyz_", min_size=1, max_size=6), json_values, max_size=3))
    qs = [draw(gen.conditional(atoms, consts=False)) for _ in range(draw(st.integers(1, 3)))]
    return {"kind": kind, "atoms": atoms, "ranks": ranks, "base": base, "pre": pre, "meta": meta,
            "queries": [[fm.to_json(B), fm.to_json(A)] for B, A in qs],
            "fresh": draw(st.integers(0, 3)) == 0, "extended": draw(st.booleans()) if kind == "z" else False,
            "prefix": draw(st.integers(1, 50)), "order": draw(st.sampled_from(["asc", "desc"])),
            "warm": draw(st.booleans())}


def strategy(tier):
    return _case(tier)


def same_json(a, b):
    """type-strict deep equality (1, 1.0 and True are different JSON values; dict order is not)"""
    if type(a) is not type(b):
        return False
    if isinstance(a, dict):
        return a.keys() == b.keys() and all(same_json(a[k], b[k]) for k in a)
    if isinstance(a, list):
        return len(a) == len(b) and all(same_json(x, y) for x, y in zip(a, b))
    return a == b


class FailingFile:
    def __init__(self, real, fail_at, prefix, counter):
        self.real, self.fail_at, self.prefix, self.counter = real, fail_at, prefix, counter

    def write(self, data):
        self.counter[0] += 1
        if self.fail_at is not None and self.counter[0] == self.fail_at:
            if self.prefix:
                self.real.write(bytes(data)[: min(self.prefix, max(0, len(data) - 1))])
            raise OSError(28, "injected: no space left on device")
        return self.real.write(data)

    def __enter__(self):
        return self

    def __exit__(self, *a):
        self.real.close()
        return False

    def __getattr__(self, name):
        return getattr(self.real, name)


class PatchOpen:
    """route pathlib.Path.open('wb') for one target path through FailingFile"""

    def __init__(self, target, fail_at, prefix):
        self.target, self.fail_at, self.prefix = str(target), fail_at, prefix
        self.counter = [0]

    def __enter__(self):
        self.orig = pathlib.Path.open
        me = self

        def opener(p, mode="r", *a, **kw):
            f = me.orig(p, mode, *a, **kw)
            if str(p) == me.target and "w" in mode:
                return FailingFile(f, me.fail_at, me.prefix, me.counter)
            return f

        pathlib.Path.open = opener
        return self

    def __exit__(self, *a):
        pathlib.Path.open = self.orig
        return False


def run_case(case, ctx):
    L = bridge.lib()
    from inference.preocf import PreOCF, RandomMinCRepPreOCF
    atoms = case["atoms"]
    n = len(atoms)
    kind = case["kind"]
    out = []
    base = [(k, fm.from_json(B), fm.from_json(A)) for k, B, A in case.get("base", [])]
    if kind != "custom":
        sem = ref.Sem(atoms, [(B, A) for _, B, A in base])
        if not base or not ref.strongly_consistent(sem):
            return []

    def build():
        meta = json.loads(json.dumps(case["meta"]))
        if kind == "custom":
            return PreOCF.init_custom({world_str(w, n): case["ranks"][w] for w in range(1 << n) if case["ranks"][w] is not None},
                                      signature=list(atoms), metadata=meta)
        bb = bridge.mk_bb(atoms, base)
        if kind == "z":
            return PreOCF.init_system_z(bb, metadata=meta, extended=case.get("extended", False))
        return PreOCF.init_random_min_c_rep(bb, metadata=meta)

    try:
        ocf = build()
        if kind == "c":
            # a base can have several Pareto-minimal impact vectors and two constructions may
            # return different ones: the reference is computed from THIS object's impacts
            imp0 = ocf.save_impacts()
            full = {world_str(w, n): ref.kappa_pat(tuple(imp0), ref.fal_pattern(sem, w)) for w in range(1 << n)}
        else:
            full = dict(build().compute_all_ranks())     # custom / System Z: unique
    except BaseException:  # noqa: BLE001
        ctx.stratum("skipped:construction-failed")  # C16 / C17 / C18 own construction
        return []
    ctx.stratum(f"kind:{kind}")
    if len(base) >= 10:
        ctx.stratum("ten-or-more-conditionals")
    info = {"kind": kind, "atoms": atoms, "base": [f"{k}:{fm.cond_text(B, A)}" for k, B, A in base], "pre": case["pre"]}
    worlds = [world_str(w, n) for w in range(1 << n)]
    if kind == "custom":
        worlds = [w for w in worlds if w in full]
        if len(worlds) < (1 << n):
            ctx.stratum("custom:partial-rank-map")
    for w in case["pre"]:
        if world_str(w % (1 << n), n) in worlds:
            ocf.rank_world(world_str(w % (1 << n), n))
    partial = kind != "custom" and 0 < len(set(case["pre"])) < (1 << n)
    qconds = [(fm.from_json(B), fm.from_json(A)) for B, A in case["queries"]]

    def ref_verdict(B, A):
        vr = fr = None
        for w in range(1 << n):
            ws = world_str(w, n)
            if ws not in full:
                continue
            asg = {a: bool((w >> i) & 1) for i, a in enumerate(atoms)}
            if fm.ev(A, asg):
                if fm.ev(B, asg):
                    vr = full[ws] if vr is None else min(vr, full[ws])
                else:
                    fr = full[ws] if fr is None else min(fr, full[ws])
        return vr is not None and (fr is None or vr < fr)

    verdicts = [ref_verdict(B, A) for B, A in qconds]
    if case.get("warm"):
        # the object has been used before it is saved: formula ranks / acceptance asked of it
        ctx.stratum("warm-before-save")
        for B, A in qconds[:2]:
            try:
                ocf.conditional_acceptance(bridge.mk_cond(B, A))
                ocf.formula_rank(bridge.to_pysmt(A))
            except BaseException:  # noqa: BLE001 - partial custom maps may lack worlds; not this check's business
                pass
    if (partial and len(set(full.values())) >= 2):
        ctx.nt(gen.case_hash(case))
        ctx.stratum("partial-state")
    tmp = tempfile.mkdtemp(prefix="verif-c20-")

    def snapshot(o):
        return {"signature": list(o.signature), "ranks": dict(o.ranks), "impacts": list(getattr(o, "_impacts", []) or []),
                "metadata": json.loads(json.dumps(o.metadata, default=str))}

    def same_behaviour(o2, tag, order="asc"):
        ctx.ev(1)
        s1, s2 = snapshot(ocf), snapshot(o2)
        for key in ("signature", "ranks", "impacts", "metadata"):
            if s1[key] != s2[key]:
                out.append(obs(f"{tag}|{key}-differs", dict(info, original=repr(s1[key])[:300], copy=repr(s2[key])[:300])))
                return
        ws = sorted(worlds, reverse=(order == "desc"))
        try:
            got = {w: o2.rank_world(w) for w in ws}
            v2 = [bool(o2.conditional_acceptance(bridge.mk_cond(B, A))) for B, A in qconds]
        except BaseException as e:  # noqa: BLE001
            out.append(obs(f"{tag}|{bridge.exc_symptom(e)}", dict(info, message=f"{type(e).__name__}: {e}"[:200])))
            return
        if got != full:
            out.append(obs(f"{tag}|completed-ranks-differ", dict(info, copy=got, expected=full)))
        if v2 != verdicts:
            out.append(obs(f"{tag}|verdicts-differ", dict(info, copy=v2, expected=verdicts)))

    try:
        # ---- save / load, same process ------------------------------------------------------
        before = snapshot(ocf)
        opt0, csp0 = getattr(ocf, "_optimizer", None), getattr(ocf, "_csp", None)
        p = os.path.join(tmp, "a.pkl")
        ctx.ev(1)
        try:
            ocf.save_ocf(p)
            o2 = PreOCF.load_ocf(p, trusted=True)
        except BaseException as e:  # noqa: BLE001
            out.append(obs(f"save-load|{bridge.exc_symptom(e)}", dict(info, message=f"{type(e).__name__}: {e}"[:200])))
            return out
        if snapshot(ocf) != before or getattr(ocf, "_optimizer", None) is not opt0 or getattr(ocf, "_csp", None) is not csp0:
            out.append(obs("save|changed-the-original", info))
        same_behaviour(o2, "same-process", case["order"])
        # ---- fresh interpreter ----------------------------------------------------------------
        if case.get("fresh"):
            ctx.stratum("fresh-interpreter")
            qp = os.path.join(tmp, "q.json")
            json.dump(case["queries"], open(qp, "w"))
            env = dict(os.environ)
            env["PYTHONPATH"] = HERE + os.pathsep + os.path.join(HERE, ".deps") + os.pathsep + env.get("PYTHONPATH", "")
            cp = subprocess.run([sys.executable, "-m", "vlib.props.c20_child", "consume", p, qp, case["order"]], cwd=HERE, env=env,
                                capture_output=True, text=True)
            ctx.ev(1)
            line = [l for l in cp.stdout.splitlines() if l.startswith("RESULT ")]
            if cp.returncode != 0 or not line:
                out.append(obs("fresh-process|load-failed", dict(info, rc=cp.returncode, stderr=cp.stderr[-400:])))
            else:
                r = json.loads(line[0][7:])
                if r["error"]:
                    out.append(obs("fresh-process|error-while-using-loaded-object", dict(info, message=r["error"])))
                else:
                    if r["signature"] != list(atoms):
                        out.append(obs("fresh-process|signature-differs", dict(info, got=r["signature"])))
                    if r["stored"] != before["ranks"]:
                        out.append(obs("fresh-process|stored-ranks-differ", dict(info, got=r["stored"], expected=before["ranks"])))
                    if r["ranks"] != full:
                        out.append(obs("fresh-process|completed-ranks-differ", dict(info, got=r["ranks"], expected=full)))
                    if r["verdicts"] != verdicts:
                        out.append(obs("fresh-process|verdicts-differ", dict(info, got=r["verdicts"], expected=verdicts)))
                    if (r["impacts"] or []) != before["impacts"]:
                        out.append(obs("fresh-process|impacts-differ", dict(info, got=r["impacts"], expected=before["impacts"])))
        # ---- producer and consumer are BOTH fresh interpreters ------------------------------------
        if case.get("fresh") and kind != "custom" and case.get("pre") is not None and gen.case_hash(case)[0] in "01234567":
            ctx.stratum("two-fresh-interpreters")
            ctx.ev(1)
            cp_ = os.path.join(tmp, "case.json")
            json.dump(case, open(cp_, "w"))
            p2 = os.path.join(tmp, "b.pkl")
            env = dict(os.environ)
            env["PYTHONPATH"] = HERE + os.pathsep + os.path.join(HERE, ".deps") + os.pathsep + env.get("PYTHONPATH", "")
            pr = subprocess.run([sys.executable, "-m", "vlib.props.c20_child", "produce", cp_, p2], cwd=HERE, env=env,
                                capture_output=True, text=True)
            pl = [l for l in pr.stdout.splitlines() if l.startswith("RESULT ")]
            if pr.returncode == 0 and pl:
                prod = json.loads(pl[0][7:])
                full2 = prod["full"]

                def verdict2(B, A):
                    vr = fr = None
                    for w in range(1 << n):
                        ws = world_str(w, n)
                        asg = {a: bool((w >> i) & 1) for i, a in enumerate(atoms)}
                        if ws in full2 and fm.ev(A, asg):
                            if fm.ev(B, asg):
                                vr = full2[ws] if vr is None else min(vr, full2[ws])
                            else:
                                fr = full2[ws] if fr is None else min(fr, full2[ws])
                    return vr is not None and (fr is None or vr < fr)

                expv = [verdict2(B, A) for B, A in qconds]
                qp2 = os.path.join(tmp, "q2.json")
                json.dump(case["queries"], open(qp2, "w"))
                co = subprocess.run([sys.executable, "-m", "vlib.props.c20_child", "consume", p2, qp2, "desc"], cwd=HERE,
                                    env=env, capture_output=True, text=True)
                cl = [l for l in co.stdout.splitlines() if l.startswith("RESULT ")]
                if co.returncode != 0 or not cl:
                    out.append(obs("two-processes|load-failed", dict(info, stderr=co.stderr[-300:])))
                else:
                    r2 = json.loads(cl[0][7:])
                    if r2["error"]:
                        out.append(obs("two-processes|error-while-using-loaded-object", dict(info, message=r2["error"])))
                    elif r2["ranks"] != full2:
                        out.append(obs("two-processes|completed-ranks-differ", dict(info, got=r2["ranks"], expected=full2)))
                    elif r2["verdicts"] != expv:
                        out.append(obs("two-processes|verdicts-differ", dict(info, got=r2["verdicts"], expected=expv,
                                                                           queries=[fm.cond_text(B, A) for B, A in qconds])))
        # ---- impacts round trips ----------------------------------------------------------------
        if kind == "c":
            bb = bridge.mk_bb(atoms, base)
            imp = ocf.save_impacts()
            for fmt, name in (("json", "i.json"), ("pickle", "i.pkl")):
                ctx.ev(1)
                try:
                    ip = os.path.join(tmp, name)
                    ocf.export_impacts(ip, fmt=fmt)
                    o3 = RandomMinCRepPreOCF.init_with_impacts(bb, ip)
                    if o3.save_impacts() != imp or dict(o3.compute_all_ranks()) != full:
                        out.append(obs(f"impacts|{fmt}-roundtrip-differs", dict(info, impacts=imp, got=o3.save_impacts())))
                except BaseException as e:  # noqa: BLE001
                    out.append(obs(f"impacts|{fmt}|{bridge.exc_symptom(e)}", dict(info, message=f"{type(e).__name__}: {e}"[:200])))
            ctx.ev(1)
            try:
                o4 = RandomMinCRepPreOCF.init_with_impacts_list(bb, list(imp))
                if o4.save_impacts() != imp or dict(o4.compute_all_ranks()) != full:
                    out.append(obs("impacts|list-roundtrip-differs", dict(info, impacts=imp)))
                o5 = build()
                o5.load_impacts(list(imp))
                if o5.save_impacts() != imp:
                    out.append(obs("impacts|load_impacts-differs", dict(info, impacts=imp)))
            except BaseException as e:  # noqa: BLE001
                out.append(obs(f"impacts|list|{bridge.exc_symptom(e)}", dict(info, message=f"{type(e).__name__}: {e}"[:200])))
        # ---- metadata --------------------------------------------------------------------------
        for name, fmt in (("m.json", "pickle"), ("m.pkl", "json"), ("m.pickle", "json"), ("m.dat", "json"), ("m.bin", "pickle")):
            ctx.ev(1)
            try:
                mp = os.path.join(tmp, name)
                ocf.save_metadata(mp, fmt=fmt)
                is_json = name.endswith(".json") or (not name.endswith((".pkl", ".pickle")) and fmt == "json")
                raw = open(mp, "rb").read()
                try:
                    json.loads(raw.decode())
                    looks_json = True
                except Exception:
                    looks_json = False
                if looks_json != is_json:
                    out.append(obs("metadata|wrong-format-for-suffix", dict(info, file=name, fmt=fmt)))
                    continue
                if name.endswith((".json", ".pkl", ".pickle", ".bin")):   # load infers: .json -> JSON, else pickle
                    o6 = PreOCF.init_custom({"0": 0}, signature=["a"])
                    o6.load_metadata(mp)
                    for k, v in case["meta"].items():
                        if k not in o6.metadata or not same_json(o6.metadata[k], v):
                            out.append(obs("metadata|roundtrip-differs", dict(info, file=name, key=k, saved=repr(v), loaded=repr(o6.metadata.get(k)))))
                            break
            except BaseException as e:  # noqa: BLE001
                out.append(obs(f"metadata|{bridge.exc_symptom(e)}", dict(info, file=name, message=f"{type(e).__name__}: {e}"[:200])))
        # ---- failure points of the save -----------------------------------------------------------
        def after_failed_save(tag, raised):
            ctx.ev(1)
            ctx.stratum("failed-save")
            ctx.nt(gen.case_hash([case, tag]))
            if not raised:
                out.append(obs(f"failed-save|{tag.split(':')[0]}|no-exception", dict(info, failure=tag)))
                return
            if getattr(ocf, "_optimizer", None) is not opt0 or getattr(ocf, "_csp", None) is not csp0:
                out.append(obs("failed-save|solver-objects-not-restored", dict(info, failure=tag)))
            if snapshot(ocf) != before:
                out.append(obs("failed-save|state-changed", dict(info, failure=tag)))
            try:
                good = os.path.join(tmp, "good.pkl")
                ocf.save_ocf(good)
                o7 = PreOCF.load_ocf(good, trusted=True)
                if snapshot(o7) != before:
                    out.append(obs("failed-save|later-save-differs", dict(info, failure=tag)))
            except BaseException as e:  # noqa: BLE001
                out.append(obs(f"failed-save|later-save:{bridge.exc_symptom(e)}", dict(info, failure=tag, message=str(e)[:200])))

        for tag, target in (("directory", tmp), ("parent-missing", os.path.join(tmp, "nope", "x.pkl"))):
            try:
                ocf.save_ocf(target)
                raised = False
            except BaseException:  # noqa: BLE001
                raised = True
            after_failed_save(tag, raised)
        ocf.metadata["unpicklable"] = lambda x: x
        try:
            ocf.save_ocf(os.path.join(tmp, "u.pkl"))
            raised = False
        except BaseException:  # noqa: BLE001
            raised = True
        del ocf.metadata["unpicklable"]
        after_failed_save("unpicklable-member", raised)
        # enumerate the writes of the dump
        wp = os.path.join(tmp, "w.pkl")
        with PatchOpen(wp, None, 0) as po:
            ocf.save_ocf(wp)
        K = po.counter[0]
        ctx.extra["write_points"] = ctx.extra.get("write_points", 0) + K
        for k in range(1, K + 1):
            for prefix in (0, case.get("prefix", 7)):
                with PatchOpen(wp, k, prefix):
                    try:
                        ocf.save_ocf(wp)
                        raised = False
                    except OSError:
                        raised = True
                    except BaseException as e:  # noqa: BLE001
                        raised = True
                        out.append(obs("failed-save|other-exception-type", dict(info, message=f"{type(e).__name__}: {e}"[:200])))
                after_failed_save(f"write:{k}:{'prefix' if prefix else 'before'}", raised)
        # lazy ranking still continues with the right values after all the failures
        ctx.ev(1)
        try:
            got = {w: ocf.rank_world(w) for w in sorted(worlds, reverse=True)}
            if got != full:
                out.append(obs("failed-save|lazy-ranking-wrong-afterwards", dict(info, got=got, expected=full)))
        except BaseException as e:  # noqa: BLE001
            out.append(obs(f"failed-save|lazy-ranking:{bridge.exc_symptom(e)}", dict(info, message=str(e)[:200])))
    finally:
        shutil.rmtree(tmp, ignore_errors=True)
    if ctx.record and partial:
        ctx.sample(dict(info, metadata=case["meta"], queries=[fm.cond_text(B, A) for B, A in qconds], fresh=case.get("fresh")))
    return out


def shrink(case):
    if case["pre"]:
        for i in range(len(case["pre"])):
            c = dict(case)
            c["pre"] = case["pre"][:i] + case["pre"][i + 1:]
            yield c
    if case["meta"]:
        for k in list(case["meta"]):
            c = dict(case)
            c["meta"] = {kk: v for kk, v in case["meta"].items() if kk != k}
            yield c
    if len(case["queries"]) > 1:
        for i in range(len(case["queries"])):
            c = dict(case)
            c["queries"] = [case["queries"][i]]
            yield c
    base = case.get("base", [])
    if len(base) > 1:
        for i in range(len(base)):
            c = dict(case)
            c["base"] = [[k, B, A] for k, (_, B, A) in enumerate(base[:i] + base[i + 1:], 1)]
            yield c


def required_strata(tier):
    return ["two-fresh-interpreters", "ten-or-more-conditionals", "kind:custom", "custom:partial-rank-map", "kind:z", "kind:c", "partial-state", "fresh-interpreter", "failed-save"]
