"""C05 - c-inference equals skeptical inference over all c-representations."""

from itertools import product

from .. import bridge, fm, gen, ref
from ..core import obs
from . import opsem

ID = "C05"
LEVEL = "exploration"
RULE = ("Hypothesis-generated strongly consistent bases (1-4 atoms, 1-5 conditionals quick / 1-6 "
        "thorough; deliberately including conditionals nobody falsifies, constants, single-"
        "conditional and all-unfalsifiable bases) x 3-5 queries; oracle = naive world-level "
        "constraint system for 'all c-representations' handed to z3 with the negated acceptance: "
        "a sat answer yields an impact vector that is re-validated by the pure-Python checker; an "
        "unsat answer is cross-checked by pure-Python enumeration of all impact vectors in a box "
        "([0..3]^m for m<=4, [0..2]^5). evaluations = answers compared. non-trivial = A, A&B, "
        "A&notB satisfiable; distinct by (atom count, base masks, query masks).")
ASSUMPTIONS = ["CPython, Hypothesis, harness c-representation checker (pure Python)",
               "z3 is trusted only for 'unsat' on the naive encoding, cross-checked by box enumeration",
               "programmatic construction with parser conventions (keys 1..n)"]
CFGS = ["c"]


def budget(tier):
    return {"examples": 2400 if tier == "quick" else 16000,
            "soft_seconds": 240 if tier == "quick" else 2400}


SEARCH = ["c-False-but-W-True", "c-True-but-p-False", "c-False-but-Z-True", "c-True-but-Z-False"]


def search(seed):
    """reference-only search (oracle-guided, as C04) for a query on which c-inference differs
    from its neighbours in the inclusion order"""
    want = SEARCH[seed % len(SEARCH)]
    rnd = gen.rng(seed)
    tried = 0
    best = None
    for _ in range(600):
        n = rnd.randint(2, 4)
        atoms, conds = gen.r_literal_base(rnd, n, rnd.randint(2, 5), max_ant=2)
        conds = gen.repair_strong(atoms, conds)
        if len(conds) < 2:
            continue
        sem = ref.Sem(atoms, conds)
        M = ref.Model(sem)
        qs = [gen.r_query(rnd, atoms) for _ in range(6)]
        tried += 1
        for B, A in qs:
            a, v, f = sem.qmasks(B, A)
            if not (a and v and f):
                continue
            w, z, p = M.system_w(a, v, f), M.system_z(a, v, f), M.p_entailment(a, v, f)
            if want == "c-False-but-W-True" and not w:
                continue
            if want == "c-True-but-p-False" and p:
                continue
            c, _ = ref.c_inference_smt(sem, a, v, f)
            hit = {"c-False-but-W-True": (not c) and w, "c-True-but-p-False": c and not p,
                   "c-False-but-Z-True": (not c) and z, "c-True-but-Z-False": c and not z}[want]
            if hit:
                others = [q for q in qs if q != (B, A)][:2]
                return gen.mk_case(atoms, conds, [(B, A)] + others, searched=want, tried=tried)
        if best is None:
            best = gen.mk_case(atoms, conds, qs[:3], searched="none", tried=tried)
    if best is None:
        best = gen.mk_case(["a", "b"], [(fm.V("b"), fm.V("a"))], [(fm.V("b"), fm.V("a"))], searched="none")
    best["tried"] = tried
    return best


def strategy(tier):
    from hypothesis import strategies as st
    return st.one_of(gen.strong_case(1, 4, 5 if tier == "quick" else 6, unfals=True, qlo=3, qhi=5),
                     gen.strong_case(1, 4, 5 if tier == "quick" else 6, unfals=True, qlo=3, qhi=5),
                     gen.multiclause_case(5, nq=3),
                     st.integers(0, 2**40).map(search))


def c_reps_in_box(sem):
    bound = 3 if sem.m <= 4 else (2 if sem.m == 5 else 1)
    return bound, [eta for eta in product(range(bound + 1), repeat=sem.m) if ref.is_c_rep(sem, eta)]


def expected_c(sem, box, a, v, f):
    ans, wit = ref.c_inference_smt(sem, a, v, f)
    if ans is None:
        raise opsem.HarnessError("reference solver gave no verdict")
    if a and f and v:
        if ans is False:
            if not (ref.is_c_rep(sem, wit) and not ref.c_accepts(sem, wit, v, f)):
                raise opsem.HarnessError(f"reference witness invalid: {wit}")
        else:
            for eta in box:
                if not ref.c_accepts(sem, eta, v, f):
                    raise opsem.HarnessError(f"reference says True but {eta} is a counter-model")
    return ans


def run_case(case, ctx):
    atoms, base, queries, allat, sem = opsem.build(case)
    if not base or not queries:
        return []
    if case.get("searched"):
        ctx.stratum("source:search")
        ctx.extra["reference_only_candidates"] = ctx.extra.get("reference_only_candidates", 0) + case.get("tried", 0)
    M = ref.Model(sem)
    if not M.ok:
        ctx.stratum("skipped:not-in-domain")
        return []
    if sem.m > 7:
        ctx.stratum("skipped:too-large")
        return []
    opsem.base_strata(ctx, sem, M, base)
    unf = [j for j in range(sem.m) if sem.fal[j] == 0]
    if unf:
        ctx.stratum("unfalsifiable:all" if len(unf) == sem.m else "unfalsifiable:mixed")
    if sem.m == 1:
        ctx.stratum("single-conditional")
    bound, box = c_reps_in_box(sem)
    if not box:
        # a strongly consistent base has a c-representation; the box may be too small
        ctx.stratum("box-empty")
    out = []
    exp = []
    for _, B, A in queries:
        a, v, f = sem.qmasks(B, A)
        e = expected_c(sem, box, a, v, f)
        # theorem used by C08: p <= c <= W (oracle self-check)
        if (M.p_entailment(a, v, f) and not e) or (e and not M.system_w(a, v, f)):
            raise opsem.HarnessError("oracle self-check failed: p<=c<=W")
        exp.append(e)
    res = bridge.answers(atoms, base, queries, "c")
    sig = (len(allat), tuple(zip(sem.ver, sem.fal)))
    if res[0] == "exc":
        ctx.ev(1)
        out.append(obs(f"c|{res[1]}", {"message": res[2], "base": opsem.base_text(base)}))
        return out
    got = res[1]
    for i, (k, B, A) in enumerate(queries):
        ctx.ev(1)
        a, v, f = sem.qmasks(B, A)
        if a and v and f:
            ctx.nt(repr((sig, v, f)))
            ctx.stratum(f"expected={exp[i]}")
            if exp[i] and not M.p_entailment(a, v, f):
                ctx.stratum("c-True-but-p-False")
            if not exp[i] and M.system_w(a, v, f):
                ctx.stratum("c-False-but-W-True")
            if exp[i] != M.system_z(a, v, f):
                ctx.stratum("c-True-but-Z-False" if exp[i] else "c-False-but-Z-True")
        else:
            ctx.stratum("query:vacuous")
        if not opsem.is_bool(got[i]):
            out.append(obs("c|non-boolean", {"query": fm.cond_text(B, A), "got": repr(got[i])}))
        elif bool(got[i]) != exp[i]:
            out.append(obs(f"c|wrong:{exp[i]}->{bool(got[i])}",
                           {"query": fm.cond_text(B, A), "expected": exp[i], "got": bool(got[i]),
                            "base": opsem.base_text(base)}))
    if ctx.record and len(base) >= 2:
        ctx.sample({"base": opsem.base_text(base),
                    "queries": [fm.cond_text(B, A) for _, B, A in queries], "expected": exp,
                    "c_representations_in_box": len(box), "box_bound": bound})
    return out



def extra_cases(tier, shard, nshards, ctx):
    if tier != "thorough":
        return
    yield from opsem.corpus484(shard, nshards, ctx)


def shrink(case):
    for c in gen.shrink_candidates(case):
        c = gen.renumber(c)
        c.pop("searched", None)
        c.pop("tried", None)
        yield c


describe = opsem.describe


def required_strata(tier):
    return ["expected=True", "expected=False", "unfalsifiable:mixed", "unfalsifiable:all",
            "single-conditional", "c-True-but-p-False", "c-False-but-W-True", "c-False-but-Z-True", "c-True-but-Z-False", "base:constants"]
