"""Oracle-guided generation of *distinguishing inputs* (reference side only).

The recursive decision procedures of System W and lexicographic inference are written down here
once more, on falsification patterns of worlds (top layer first), together with a list of
plausible WRONG variants of each step (quantifier swapped, minimisation missing, recursion not
restricted to the tie set, only the first candidate followed, ...).  A (base, query) is kept when
the correct procedure and the chosen wrong variant give different answers on it: such an input
sits exactly where that step of the procedure decides the answer.  This only CHOOSES inputs; the
oracles of the properties stay what their modules say (definition, postulate, relation between
answers, metamorphic equality), and the library is never compared with anything in this file.
The correct procedures are self-checked against the definitions in ref.Model (selfcheck()).

A query is built from two explicitly chosen sets of worlds, V (verifying) and F (falsifying):
A = disjunction of the complete conjunctions of V+F, B = that of V.  That gives direct control
over which patterns meet in the comparison; literal / short-conjunction queries reach these
regions only rarely.
"""

from . import fm, gen, ref

COST_KINDS = ["w:cost-no-minimise", "w:cost-early-stop", "lex:cost-early-stop", "lex:cost-as-cardinality"]
W_VARIANTS = ["anyall", "no-minimise", "no-filter", "first-common", "last-common", "last-tie-true",
              "skip-test-below-tie", "superset-kept", "empty-common-stops", "flip-below-tie", "tie-set-leaks-down"]
LEX_VARIANTS = ["first-v", "last-v", "all-v", "any-f", "f-all-minimal", "v-all-minimal", "tie-stops-false",
                "tie-stops-true", "no-filter", "last-tie-true", "dedupe", "first-f", "last-f", "flip-below-tie"]
KINDS = [f"w:{v}" for v in W_VARIANTS] + [f"lex:{v}" for v in LEX_VARIANTS] + COST_KINDS


def _minimal(sets):
    sets = set(sets)
    return {s for s in sets if not any(t != s and (t & ~s) == 0 for t in sets)}


def _maximal(sets):
    sets = set(sets)
    return {s for s in sets if not any(t != s and (s & ~t) == 0 for t in sets)}


def _sides(M, v, f):
    pats = M._patterns()
    return ([pats[w] for w in fm.worlds_of(v & M.feasible)], [pats[w] for w in fm.worlds_of(f & M.feasible)])


def _conjuncts(g):
    return _conjuncts(g[1]) + _conjuncts(g[2]) if g[0] == "a" else [g]


def _cost_sides(M, v, f, atoms, conds):
    """as _sides, each pattern paired with a MODELLED clause cost per layer: a falsified conditional
    whose consequent is a conjunction costs one per false conjunct (its non-falsification CNF has
    one clause per conjunct), every other falsified conditional costs 1"""
    pats = M._patterns()
    cj = [_conjuncts(B) for B, _ in conds]

    def side(mask):
        out = []
        for w in fm.worlds_of(mask & M.feasible):
            asg = {x: bool((w >> i) & 1) for i, x in enumerate(atoms)}
            costs = []
            for s in pats[w]:
                c = 0
                for j in range(s.bit_length()):
                    if (s >> j) & 1:
                        c += max(1, sum(1 for g in cj[j] if not fm.ev(g, asg)))
                costs.append(c)
            out.append((pats[w], tuple(costs)))
        return out
    return side(v), side(f)


def _cost_enumerated(side, lvl):
    """sets met by an enumeration in nondecreasing clause cost that blocks every superset of a
    set already met (ties between a set and a proper subset: the subset first)"""
    best = {}
    for p, c in side:
        best[p[lvl]] = min(best.get(p[lvl], 10**9), c[lvl])
    return {S: c for S, c in best.items()
            if not any(T != S and (T & ~S) == 0 and best[T] <= c for T in best)}


def w_rec_plain(lvl, V, F, k):
    XV, XF = _minimal(p[lvl] for p in V), _minimal(p[lvl] for p in F)
    if not all(any((a & ~b) == 0 for a in XV) for b in XF):
        return False
    for xi in sorted(XV & XF):
        if lvl == k - 1:
            return False
        if not w_rec_plain(lvl + 1, [p for p in V if p[lvl] == xi], [p for p in F if p[lvl] == xi], k):
            return False
    return True


def w_answer(M, v, f, variant=None):
    V, F = _sides(M, v, f)
    k = len(M.layers)
    if not V or not F or not k:
        return None

    def rec(lvl, V, F, below_tie):
        if variant == "flip-below-tie" and below_tie and lvl < k - 1:
            # whatever is decided below a tie on a NON-EMPTY set (and above the lowest layer) is inverted
            return not w_rec_plain(lvl, V, F, k)
        if variant == "tie-set-leaks-down" and below_tie and lvl < k - 1 and all(p[lvl] for p in V + F):
            # members of the tie set of a higher layer are reported in place of this layer's
            # falsified conditionals: both sides look alike and nothing is left to compare below
            return True
        if variant == "no-minimise":
            XV, XF = {p[lvl] for p in V}, {p[lvl] for p in F}
        elif variant == "superset-kept":
            # a minimal set on the verifying side is lost when a proper superset of it was reached
            allv = {p[lvl] for p in V}
            XV = _minimal(allv)
            lost = sorted(s for s in XV if any(t != s and (s & ~t) == 0 for t in allv))
            if lost:
                XV = (XV - {lost[0]}) | {min(t for t in allv if t != lost[0] and (lost[0] & ~t) == 0)}
            XF = _minimal(p[lvl] for p in F)
        else:
            XV, XF = _minimal(p[lvl] for p in V), _minimal(p[lvl] for p in F)
        if variant == "anyall":
            ok = any(all((a & ~b) == 0 for b in XF) for a in XV)
        else:
            ok = all(any((a & ~b) == 0 for a in XV) for b in XF)
        if variant == "skip-test-below-tie" and below_tie and lvl < k - 1:
            # the test below a non-empty tie sees equal sets and the search goes on
            return rec(lvl + 1, V, F, True)
        if not ok:
            return False
        common = sorted(XV & XF)
        if variant == "first-common":
            common = common[:1]
        if variant == "last-common":
            common = common[-1:]
        for xi in common:
            if variant == "empty-common-stops" and not xi:
                return False
            if lvl == k - 1:
                if variant == "last-tie-true":
                    continue
                return False
            if variant == "no-filter":
                r = rec(lvl + 1, V, F, below_tie or bool(xi))
            else:
                r = rec(lvl + 1, [p for p in V if p[lvl] == xi], [p for p in F if p[lvl] == xi],
                        below_tie or bool(xi))
            if not r:
                return False
        return True

    return rec(0, V, F, False)


def lex_answer(M, v, f, variant=None, rep=None):
    V, F = _sides(M, v, f)
    k = len(M.layers)
    if not V or not F or not k:
        return None

    def card(s):
        if variant == "dedupe" and rep is not None:
            return len({rep[j] for j in range(s.bit_length()) if (s >> j) & 1})
        return bin(s).count("1")

    def rec(lvl, V, F, below=False):
        XV, XF = _minimal(p[lvl] for p in V), _minimal(p[lvl] for p in F)
        cv, cf = min(card(s) for s in XV), min(card(s) for s in XF)
        if variant == "flip-below-tie" and below and lvl < k - 1:
            below = False
            if cv != cf:
                return not (cv < cf)
        if cv != cf:
            return cv < cf
        if variant == "tie-stops-false":
            return False
        if variant == "tie-stops-true":
            return True
        if lvl == k - 1:
            return variant == "last-tie-true"
        cand_v = sorted(s for s in XV if card(s) == cv or variant == "v-all-minimal")
        cand_f = sorted(s for s in XF if card(s) == cf or variant == "f-all-minimal")
        if variant == "first-v":
            cand_v = cand_v[:1]
        if variant == "last-v":
            cand_v = cand_v[-1:]
        if variant == "first-f":
            cand_f = cand_f[:1]
        if variant == "last-f":
            cand_f = cand_f[-1:]

        def sub(sv, sf):
            if variant == "no-filter":
                return rec(lvl + 1, V, F)
            if variant == "flip-below-tie":
                return rec(lvl + 1, [p for p in V if p[lvl] == sv], [p for p in F if p[lvl] == sf], below or cv > 0)
            return rec(lvl + 1, [p for p in V if p[lvl] == sv], [p for p in F if p[lvl] == sf])

        if variant == "all-v":
            return all(all(sub(sv, sf) for sf in cand_f) for sv in cand_v)
        if variant == "any-f":
            return any(any(sub(sv, sf) for sf in cand_f) for sv in cand_v)
        return any(all(sub(sv, sf) for sf in cand_f) for sv in cand_v)

    return rec(0, V, F)


def w_cost_answer(M, v, f, atoms, conds, variant):
    """System W with the minimal sets replaced by what a cost-ordered enumeration WITHOUT the
    final removal of supersets delivers ('cost-no-minimise') or with only the sets of least
    clause cost ('cost-early-stop')"""
    V, F = _cost_sides(M, v, f, atoms, conds)
    k = len(M.layers)
    if not V or not F or not k:
        return None

    def sets(side, lvl):
        e = _cost_enumerated(side, lvl)
        if variant == "cost-early-stop":
            m = min(e.values())
            e = {S: c for S, c in e.items() if c == m}
        return set(e)

    def rec(lvl, V, F):
        XV, XF = sets(V, lvl), sets(F, lvl)
        if not all(any((a & ~b) == 0 for a in XV) for b in XF):
            return False
        for xi in sorted(XV & XF):
            if lvl == k - 1:
                return False
            if not rec(lvl + 1, [x for x in V if x[0][lvl] == xi], [x for x in F if x[0][lvl] == xi]):
                return False
        return True

    return rec(0, V, F)


def lex_cost_answer(M, v, f, atoms, conds, variant):
    V, F = _cost_sides(M, v, f, atoms, conds)
    k = len(M.layers)
    if not V or not F or not k:
        return None

    def sets(side, lvl):
        e = _cost_enumerated(side, lvl)
        if variant == "cost-early-stop":
            m = min(e.values())
            e = {S: c for S, c in e.items() if c == m}
        if variant == "cost-as-cardinality":
            return {S: c for S, c in e.items()}
        return {S: bin(S).count("1") for S in e}

    def rec(lvl, V, F):
        XV, XF = sets(V, lvl), sets(F, lvl)
        cv, cf = min(XV.values()), min(XF.values())
        if cv != cf:
            return cv < cf
        if lvl == k - 1:
            return False
        cand_v = sorted(S for S, c in XV.items() if c == cv)
        cand_f = sorted(S for S, c in XF.items() if c == cf)
        return any(all(rec(lvl + 1, [x for x in V if x[0][lvl] == sv], [x for x in F if x[0][lvl] == sf])
                       for sf in cand_f) for sv in cand_v)

    return rec(0, V, F)


def cube(w, atoms):
    return fm.conj([fm.V(x) if (w >> i) & 1 else fm.Not(fm.V(x)) for i, x in enumerate(atoms)])


def query_of(V, F, atoms):
    ws = sorted(set(V) | set(F))
    return fm.disj([cube(w, atoms) for w in sorted(V)]), fm.disj([cube(w, atoms) for w in ws])


def _mask(ws):
    m = 0
    for w in ws:
        m |= 1 << w
    return m


def _base(rnd, min_layers, dup=False, multi=False):
    for _ in range(200):
        n = rnd.randint(4, 6)
        atoms, conds = gen.r_literal_base(rnd, n, rnd.randint(5, 9), max_ant=2)
        if multi:
            # 1-2 conditionals with a conjunction of 2-3 literals as consequent
            for j in rnd.sample(range(len(conds)), rnd.randint(1, 2)):
                conds[j] = (fm.conj([conds[j][0]] + [gen.r_literal(rnd, atoms) for _ in range(rnd.randint(1, 3))]),
                            conds[j][1])
        elif rnd.random() < 0.3:
            # one conditional with a conjunctive consequent (several clauses in a CNF encoding)
            j = rnd.randrange(len(conds))
            conds[j] = (fm.And(conds[j][0], gen.r_literal(rnd, atoms)), conds[j][1])
        conds = gen.repair_strong(atoms, conds)
        if len(conds) < 3:
            continue
        if dup:
            # an exact duplicate of one conditional (a legal base: two keys, same text)
            for j in rnd.sample(range(len(conds)), rnd.randint(1, 2)):
                conds.append(conds[j])
        sem = ref.Sem(atoms, conds)
        M = ref.Model(sem)
        if M.ok and len(M.layers) >= min_layers:
            return atoms, conds, sem, M
    return None


def _rep(sem):
    seen, rep = {}, {}
    for j in range(sem.m):
        rep[j] = seen.setdefault((sem.ver[j], sem.fal[j]), j)
    return rep


def answers(kind, M, sem, v, f, atoms=None, conds=None):
    op, variant = kind.split(":")
    if kind in COST_KINDS:
        if op == "w":
            return w_answer(M, v, f), w_cost_answer(M, v, f, atoms, conds, variant)
        return lex_answer(M, v, f), lex_cost_answer(M, v, f, atoms, conds, variant)
    if op == "w":
        return w_answer(M, v, f), w_answer(M, v, f, variant)
    return lex_answer(M, v, f), lex_answer(M, v, f, variant, rep=_rep(sem))


def find(seed, kind, accept=None, max_bases=300, picks=80, order=None):
    """-> case whose first query distinguishes the correct procedure from `kind`'s wrong variant
    (searched=kind, expect=<correct answer>), else searched='none'.
    accept(M, sem, a, v, f) may narrow further (reference-side only).
    order: 'general' | 'specific' | 'shuffle' | None (as generated) listing order of the base."""
    rnd = gen.rng(seed)
    tried = 0
    last = None
    min_layers = 3 if kind in ("w:skip-test-below-tie", "w:flip-below-tie", "lex:flip-below-tie", "w:tie-set-leaks-down") else 2
    for _ in range(max_bases):
        if kind == "w:cost-no-minimise":
            from . import search
            atoms, conds, _ = search.worldset_candidate(rnd)
            conds = gen.repair_strong(atoms, conds)
            sem = ref.Sem(atoms, conds)
            M = ref.Model(sem)
            b = (atoms, conds, sem, M) if M.ok and len(M.layers) >= 2 else None
        else:
            b = _base(rnd, min_layers, dup=(kind == "lex:dedupe"), multi=(kind in COST_KINDS))
        if b is None:
            continue
        atoms, conds, sem, M = b
        pats = M._patterns()
        worlds = list(pats)
        groups = {}
        for w in worlds:
            groups.setdefault(pats[w][:1], []).append(w)
        glist = [g for g in groups.values() if len(g) >= 2]
        for _ in range(picks):
            pool = rnd.choice(glist) if glist and rnd.random() < (0.3 if kind in COST_KINDS else 0.8) else worlds
            V = rnd.sample(pool, min(len(pool), rnd.randint(1, 4)))
            rest = [w for w in pool if w not in V]
            if not rest:
                continue
            F = rnd.sample(rest, min(len(rest), rnd.randint(1, 4)))
            v, f = _mask(V), _mask(F)
            tried += 1
            good, bad = answers(kind, M, sem, v, f, atoms, conds)
            if good is None or good == bad:
                continue
            if accept is not None and not accept(M, sem, v | f, v, f):
                continue
            B, A = query_of(V, F, atoms)
            other = gen.r_query(rnd, atoms)
            idx = list(range(len(conds)))
            if order == "general":
                idx.sort(key=lambda j: M.layer_of[j])
            elif order == "specific":
                idx.sort(key=lambda j: -M.layer_of[j])
            elif order == "shuffle":
                rnd.shuffle(idx)
            return gen.mk_case(atoms, [conds[j] for j in idx], [(B, A), other], searched=kind, tried=tried,
                               expect=bool(good))
        last = (atoms, conds)
    if last is None:
        return gen.mk_case(["a", "b"], [(fm.V("b"), fm.V("a"))], [(fm.V("b"), fm.V("a"))], searched="none", tried=tried)
    atoms, conds = last
    return gen.mk_case(atoms, conds, [gen.r_query(rnd, atoms)], searched="none", tried=tried)


ORDERS = ["general", "specific", "shuffle", None]


def any_kind(seed, kinds=None, accept=None, order="rotate"):
    kinds = kinds or KINDS
    # Hypothesis starts every shard with the minimal integer: the shard's salt keeps the streams apart
    import os
    seed = (seed * 2654435761 + int(os.environ.get("VERIF_SALT", "0")) * 97) % (2 ** 48)
    o = ORDERS[(seed // len(kinds)) % len(ORDERS)] if order == "rotate" else order
    c = None
    for i in range(3):      # a kind that is not met within the candidate budget hands over to the next one
        c = find(seed + i, kinds[(seed + i) % len(kinds)], accept=accept, order=o)
        if c.get("searched") != "none":
            break
    return c


def selfcheck(n_bases=150, picks=20, seed=7):
    """the correct procedures above agree with the definitions in ref.Model"""
    rnd = gen.rng(seed)
    n = 0
    for _ in range(n_bases):
        b = _base(rnd, 2, dup=rnd.random() < 0.2)
        if b is None:
            continue
        atoms, conds, sem, M = b
        ws = list(M._patterns())
        for _ in range(picks):
            V = rnd.sample(ws, rnd.randint(1, 3))
            F = [w for w in rnd.sample(ws, rnd.randint(1, 3)) if w not in V]
            if not F:
                continue
            v, f = _mask(V), _mask(F)
            n += 1
            assert w_answer(M, v, f) == M.system_w(v | f, v, f), ("W", atoms, conds, V, F)
            assert lex_answer(M, v, f) == M.lex(v | f, v, f), ("lex", atoms, conds, V, F)
    return n
