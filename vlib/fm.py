"""Harness-side formulas (independent of the library under test).

A formula is a nested tuple
    ('v', name) | ('T',) | ('F',) | ('n', f) | ('a', f, g) | ('o', f, g)
Its meaning is a truth table stored as an int bitmask over the 2**n worlds of an
ordered atom list: world w (0 <= w < 2**n) makes atom i true iff bit i of w is set;
bit w of the mask is set iff the formula holds in world w.
"""

from functools import lru_cache

T = ("T",)
F = ("F",)


def V(name):
    return ("v", name)


def Not(f):
    return ("n", f)


def And(f, g):
    return ("a", f, g)


def Or(f, g):
    return ("o", f, g)


def conj(fs):
    fs = list(fs)
    if not fs:
        return T
    r = fs[0]
    for g in fs[1:]:
        r = And(r, g)
    return r


def disj(fs):
    fs = list(fs)
    if not fs:
        return F
    r = fs[0]
    for g in fs[1:]:
        r = Or(r, g)
    return r


def from_json(x):
    """nested lists -> nested tuples"""
    if isinstance(x, (list, tuple)):
        if len(x) == 2 and x[0] == "v":
            return ("v", str(x[1]))
        return tuple([x[0]] + [from_json(y) for y in x[1:]])
    return x


def to_json(f):
    if isinstance(f, tuple):
        return [to_json(y) for y in f]
    return f


def atoms_of(f, acc=None):
    """atoms in order of first occurrence"""
    if acc is None:
        acc = []
    t = f[0]
    if t == "v":
        if f[1] not in acc:
            acc.append(f[1])
    elif t in ("n",):
        atoms_of(f[1], acc)
    elif t in ("a", "o"):
        atoms_of(f[1], acc)
        atoms_of(f[2], acc)
    return acc


def size(f):
    t = f[0]
    if t in ("v", "T", "F"):
        return 1
    if t == "n":
        return 1 + size(f[1])
    return 1 + size(f[1]) + size(f[2])


def depth(f):
    t = f[0]
    if t in ("v", "T", "F"):
        return 0
    if t == "n":
        return 1 + depth(f[1])
    return 1 + max(depth(f[1]), depth(f[2]))


def has_const(f):
    t = f[0]
    if t in ("T", "F"):
        return True
    if t == "v":
        return False
    return any(has_const(g) for g in f[1:])


def is_literal(f):
    return f[0] == "v" or (f[0] == "n" and f[1][0] == "v")


@lru_cache(maxsize=None)
def full(n):
    return (1 << (1 << n)) - 1


@lru_cache(maxsize=None)
def varmask(n, i):
    m = 0
    for w in range(1 << n):
        if (w >> i) & 1:
            m |= 1 << w
    return m


def tt(f, atoms):
    """truth table of f over the ordered atom list (tuple/list of names)"""
    n = len(atoms)
    idx = {a: i for i, a in enumerate(atoms)}
    fu = full(n)

    def go(g):
        t = g[0]
        if t == "v":
            return varmask(n, idx[g[1]])
        if t == "T":
            return fu
        if t == "F":
            return 0
        if t == "n":
            return fu & ~go(g[1])
        if t == "a":
            return go(g[1]) & go(g[2])
        if t == "o":
            return go(g[1]) | go(g[2])
        raise ValueError(g)

    return go(f)


def ev(f, assignment):
    """evaluate under dict name->bool"""
    t = f[0]
    if t == "v":
        return bool(assignment[f[1]])
    if t == "T":
        return True
    if t == "F":
        return False
    if t == "n":
        return not ev(f[1], assignment)
    if t == "a":
        return ev(f[1], assignment) and ev(f[2], assignment)
    if t == "o":
        return ev(f[1], assignment) or ev(f[2], assignment)
    raise ValueError(f)


def worlds_of(mask):
    w = 0
    out = []
    while mask:
        if mask & 1:
            out.append(w)
        mask >>= 1
        w += 1
    return out


# --------------------------------------------------------------------------------------
# text in .cl syntax
# --------------------------------------------------------------------------------------

def to_cl(f):
    """minimal-parenthesis rendering: '!' > ',' > ';' (the text the parser's getText()
    would give for the same tree, i.e. without white space)"""
    t = f[0]
    if t == "v":
        return f[1]
    if t == "T":
        return "Top"
    if t == "F":
        return "Bottom"
    if t == "n":
        s = to_cl(f[1])
        return "!" + (f"({s})" if f[1][0] in ("a", "o") else s)
    if t == "a":
        l, r = to_cl(f[1]), to_cl(f[2])
        if f[1][0] == "o":
            l = f"({l})"
        if f[2][0] in ("o", "a"):
            r = f"({r})"
        return f"{l},{r}"
    if t == "o":
        l, r = to_cl(f[1]), to_cl(f[2])
        if f[2][0] == "o":
            r = f"({r})"
        return f"{l};{r}"
    raise ValueError(f)


def cond_text(B, A):
    return f"({to_cl(B)}|{to_cl(A)})"


def subformulas(f):
    yield f
    if f[0] == "n":
        yield from subformulas(f[1])
    elif f[0] in ("a", "o"):
        yield from subformulas(f[1])
        yield from subformulas(f[2])


def simpler(f):
    """candidate simplifications of f for case minimisation (each strictly smaller)"""
    out = []
    t = f[0]
    if t in ("a", "o"):
        out += [f[1], f[2]]
        for g in simpler(f[1]):
            out.append((t, g, f[2]))
        for g in simpler(f[2]):
            out.append((t, f[1], g))
    elif t == "n":
        out.append(f[1])
        for g in simpler(f[1]):
            out.append(("n", g))
    return out


def rename(f, mp):
    t = f[0]
    if t == "v":
        return ("v", mp.get(f[1], f[1]))
    if t in ("T", "F"):
        return f
    return tuple([t] + [rename(g, mp) for g in f[1:]])
