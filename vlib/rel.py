"""Cases beyond world enumeration: medium generated bases and the shipped corpora;
helpers to run many configurations over one (base, queries) pair."""

import csv
import functools
import glob
import os
import re

from hypothesis import strategies as st

from . import bridge, fm, gen

# --------------------------------------------------------------------------------------
# corpora
# --------------------------------------------------------------------------------------

@functools.lru_cache(maxsize=None)
def corpus_index():
    """[(kb_path, query_path, n_atoms, n_conds, family)] relative to the repo root"""
    root = bridge.REPO
    out = []
    ex = os.path.join(root, "examples")
    for kb in sorted(glob.glob(os.path.join(ex, "random_large", "randomTest_*.cl"))):
        m = re.match(r"randomTest_(\d+)_(\d+)_(\d+)\.cl", os.path.basename(kb))
        q = os.path.join(ex, "random_large", f"randomQueries_{m.group(1)}_{m.group(2)}_{m.group(3)}.clq")
        if os.path.exists(q):
            out.append((os.path.relpath(kb, root), os.path.relpath(q, root), int(m.group(1)), int(m.group(2)), "random_large"))
    q484 = os.path.join(ex, "484_inference_relations_representatives", "484_inference_relations_representatives_query.cl")
    for kb in sorted(glob.glob(os.path.join(ex, "484_inference_relations_representatives", "kb*.cl"))):
        out.append((os.path.relpath(kb, root), os.path.relpath(q484, root), 2, 2, "484"))
    csvp = os.path.join(ex, "example_testing.csv")
    if os.path.exists(csvp):
        for row in csv.reader(open(csvp)):
            if len(row) >= 2 and os.path.exists(os.path.join(root, row[0])) and os.path.exists(os.path.join(root, row[1])):
                out.append((row[0], row[1], 5, 5, "AO"))
    b = os.path.join(ex, "birds")
    for kb, q in [("kb_birds001.cl", "query_birds001.cl"), ("kb_birds003.cl", "query_birds003.cl"),
                  ("example1.cl", "query_example1.cl"), ("example2.cl", "query_example2.cl"),
                  ("kb_birds005.cl", "query_birds001.cl"), ("kb_birds010.cl", "query_birds003.cl")]:
        if os.path.exists(os.path.join(b, kb)) and os.path.exists(os.path.join(b, q)):
            out.append((os.path.join("examples", "birds", kb), os.path.join("examples", "birds", q), 5, 5, "birds"))
    return out


def corpus_refs(max_atoms, max_conds, families=None):
    return [r for r in corpus_index() if r[2] <= max_atoms and r[3] <= max_conds
            and (families is None or r[4] in families)]


def from_pysmt(node):
    from .props.c10 import from_pysmt as f
    return f(node)


def load_corpus(kb, q, take=None, nq=5):
    """parse with the library's parser (owned by C10) and convert to harness formulas"""
    from parser.Wrappers import parse_belief_base, parse_queries
    bridge.lib()
    bb = parse_belief_base(os.path.join(bridge.REPO, kb))
    qs = parse_queries(os.path.join(bridge.REPO, q))
    base = [(k, from_pysmt(c.consequence), from_pysmt(c.antecedence)) for k, c in bb.conditionals.items()]
    ql = [(k, from_pysmt(c.consequence), from_pysmt(c.antecedence)) for k, c in qs.conditionals.items()]
    if take is not None and ql:
        ql = [ql[i % len(ql)] for i in take]
        ql = [(i + 1, B, A) for i, (_, B, A) in enumerate(dict.fromkeys(ql))]
    else:
        ql = ql[:nq]
    return list(bb.signature), base, ql


@st.composite
def corpus_case(draw, max_atoms, max_conds, families=None, nq=4):
    refs = corpus_refs(max_atoms, max_conds, families)
    kb, q, na, nc, fam = draw(st.sampled_from(refs))
    take = sorted(set(draw(st.lists(st.integers(0, 99), min_size=nq, max_size=nq))))
    return {"corpus": kb, "corpus_queries": q, "take": take, "family": fam}


# --------------------------------------------------------------------------------------
# medium generated bases (8-40 atoms); consistency established by the library's own
# extended partition (code that C06 checks separately)
# --------------------------------------------------------------------------------------

def _names(n):
    return [f"v{i}" for i in range(n)]


@st.composite
def medium_case(draw, lo=8, hi=24, max_conds=24, nq=4):
    n = draw(st.integers(lo, hi))
    atoms = _names(n)
    m = draw(st.integers(max(4, n // 2), max_conds))
    seed = draw(st.integers(0, 2**32))
    rnd = gen.rng(seed)
    conds = []
    for _ in range(m):
        k = rnd.choice([1, 1, 2, 2, 3])
        A = gen.r_conj(rnd, atoms, k)
        if rnd.random() < 0.15:
            A = fm.Or(A, gen.r_literal(rnd, atoms))
        B = gen.r_literal(rnd, atoms)
        if rnd.random() < 0.15:
            B = fm.Or(B, gen.r_literal(rnd, atoms))
        conds.append((B, A))
    qs = []
    for _ in range(nq):
        if rnd.random() < 0.6 and conds:
            Bi, Ai = rnd.choice(conds)
            Bj, Aj = rnd.choice(conds)
            x = gen.r_literal(rnd, atoms)
            A, B = rnd.choice([(Aj, Bi), (fm.And(Ai, x), Bi), (fm.And(Ai, Aj), Bi), (Ai, fm.Or(Bi, x)),
                               (fm.And(Ai, fm.Not(Bj)), Bi), (fm.Or(Ai, Aj), fm.Or(Bi, Bj))])
        else:
            A, B = gen.r_conj(rnd, atoms, rnd.randint(1, 2)), gen.r_literal(rnd, atoms)
        qs.append((B, A))
    return gen.mk_case(atoms, conds, qs, medium=True)


def materialise(case, weak_ok=False):
    """-> (atoms, base, queries) with harness formulas, or None if nothing usable remains"""
    if case.get("corpus"):
        atoms, base, queries = load_corpus(case["corpus"], case["corpus_queries"], case.get("take"))
    else:
        atoms, base, queries = gen.case_parts(case)
    if case.get("medium") or case.get("corpus"):
        from inference.consistency_sat import consistency_indices
        if not base:
            return None
        bb = bridge.mk_bb(atoms, base)
        part, _ = consistency_indices(bb, "z3", True)
        if part is False:
            return None
        drop = set(part[-1])
        if drop and not weak_ok:
            base = [(k, B, A) for k, B, A in base if k not in drop]
            base = [(i, B, A) for i, (_, B, A) in enumerate(base, start=1)]
        if not base:
            return None
    return atoms, base, queries


class Runner:
    """memoised answers of configurations over one (atoms, base, queries)"""

    def __init__(self, atoms, base, queries, **kw):
        self.atoms, self.base, self.queries = atoms, base, queries
        self.kw = kw
        self.cache = {}

    def get(self, cfg, weakly):
        key = (cfg, weakly)
        if key not in self.cache:
            self.cache[key] = bridge.answers(self.atoms, self.base, self.queries, cfg, weakly=weakly)
        return self.cache[key]


def size_class(atoms, base):
    n = len(atoms)
    return "small" if n <= 6 else "medium" if n <= 40 else "large"
