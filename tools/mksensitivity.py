#!/venv/bin/python
"""Write SENSITIVITY.md from sensitivity.json (own mutants) and seeded/*/meta.json
(independently written breaking changes)."""
import glob
import json
import os

ROOT = os.path.dirname(os.path.dirname(os.path.abspath(__file__)))
out = ["# Sensitivity of the checks", "",
       "Two sources of deliberately broken variants of /repo, each applied to a scratch worktree and",
       "run through the quick tier with `VERIF_REPO` pointing at it (never committed to /repo):", "",
       "1. `seeded/<id>/` - changes written by independent sub-agents that saw only the property text",
       "   (patch.diff, their demonstration, notes, meta.json with what was run);",
       "2. `tools/mutants.py` - single-edit mutants written by hand from reading the code.", ""]

metas = [json.load(open(p)) for p in sorted(glob.glob(os.path.join(ROOT, "seeded", "*", "meta.json")))]
n = len(metas)
own = [m for m in metas if m.get("checks", {}).get(m["breaks_property"], {}).get("caught")]
anyc = [m for m in metas if any(v.get("caught") for v in m.get("checks", {}).values())]
own_miss = [m["id"] for m in metas if m not in own]
none = [m["id"] for m in metas if m not in anyc]
out += ["## Summary", "",
        f"* independently seeded changes kept: **{n}**; caught by the check of the property they were written to break: "
        f"**{len(own)}**; caught by at least one check: **{len(anyc)}**.",
        f"* missed by their own property's check (but caught elsewhere unless listed as uncaught): {', '.join(own_miss) or '-'}.",
        f"* caught by no check: {', '.join(none) or 'none'}.", ""]
EQUIV = {"m01b": "partition of D+(notB|A) is never the empty list", "m03d": "a singleton superset needs the empty set, which ends the enumeration",
         "m06c": "the infinity layer always grows when facts are added", "m10d": "double negation: equivalent formula",
         "m11a": "engine name ignored only where the default engine is chosen anyway", "m12a": "same keys, same order",
         "m15a": "tseitin-cnf never emits a doubly negated literal", "m16b": "forced recomputation returns the same value",
         "m18c": "string sort differs only for ranks >= 10 (generated ranks are 0-5)"}
sp0 = os.path.join(ROOT, "sensitivity.json")
if os.path.exists(sp0):
    rs = json.load(open(sp0))
    surv = [r for r in rs if r.get("survives_baseline")]
    caught = [r for r in surv if any(v["rc"] == 1 for v in r["results"].values())]
    unc = [r["id"] for r in surv if r not in caught]
    out += [f"* hand-written mutants: {len(rs)}; surviving the baseline suite: **{len(surv)}**; of those caught by a listed check: "
            f"**{len(caught)}**; not caught: {', '.join(f'{u} ({EQUIV.get(u, chr(63))})' for u in unc) or '-'} - each examined and "
            "behaviour-preserving (reason in parentheses).", ""]
out += ["## Independently seeded changes", "",
        "| id | breaks | needs to manifest | demo (without / with) | baseline suite with change | checks: caught / missed |",
        "|----|--------|-------------------|-----------------------|----------------------------|--------------------------|"]
for p in sorted(glob.glob(os.path.join(ROOT, "seeded", "*", "meta.json"))):
    m = json.load(open(p))
    ran = m.get("ran", {})
    demo = f"{ran.get('demo_without_change', {}).get('exit', '?')} / {ran.get('demo_with_change', {}).get('exit', '?')}"
    base = (ran.get("baseline_with_change") or ["?"])[0].replace("baseline: ", "").split(";")[0]
    caught = [f"{c} ({', '.join(v['buckets'][:2])})" for c, v in m.get("checks", {}).items() if v.get("caught")]
    missed = [c for c, v in m.get("checks", {}).items() if not v.get("caught")]
    out.append(f"| {m['id']} | {m['breaks_property']} | {m.get('needs_to_manifest', '')} | {demo} | {base} | "
               f"caught: {'; '.join(caught) or '-'} / missed: {', '.join(missed) or '-'} |")
out.append("")

sp = os.path.join(ROOT, "sensitivity.json")
if os.path.exists(sp):
    out += ["## Hand-written mutants", "",
            "| id | file | edit | survives baseline suite | caught by | not caught by |",
            "|----|------|------|-------------------------|-----------|---------------|"]
    for r in json.load(open(sp)):
        if r.get("error"):
            out.append(f"| {r['id']} | {r['file']} | {r['note']} | - | error: {r['error'][:60]} | |")
            continue
        caught = [c for c, v in r["results"].items() if v["rc"] == 1]
        missed = [f"{c}(rc={v['rc']})" for c, v in r["results"].items() if v["rc"] != 1]
        out.append(f"| {r['id']} | {r['file']} | {r['note']} | {r.get('survives_baseline', 'n/a')} | "
                   f"{', '.join(caught) or '-'} | {', '.join(missed) or '-'} |")
    out.append("")
open(os.path.join(ROOT, "SENSITIVITY.md"), "w").write("\n".join(out) + "\n")
print("SENSITIVITY.md written")
