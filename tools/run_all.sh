#!/bin/sh
# tools/run_all.sh [repo_dir] [tier] [seed]: run every check against a tree, print one line per check
REPO="${1:-/repo}"; TIER="${2:-quick}"; SEED="${3:-1}"
cd "$(dirname "$0")/.." || exit 2
if [ "$REPO" != "/repo" ]; then export VERIF_EVIDENCE_DIR=/tmp/verif-alt/evidence VERIF_REPLAY_DIR=/tmp/verif-alt/replays; fi
for id in C01 C02 C03 C04 C05 C06 C07 C08 C09 C10 C11 C12 C13 C14 C15 C16 C17 C18 C19 C20; do
  s=$(date +%s)
  VERIF_REPO="$REPO" VERIF_SEED="$SEED" ./check $id --tier "$TIER" > /tmp/runall-$id.log 2>&1; rc=$?
  e=$(date +%s)
  echo "$id rc=$rc wall=$((e-s))s violations=$(grep -c '^VIOLATION' /tmp/runall-$id.log) known=$(grep -c '^KNOWN-FINDING' /tmp/runall-$id.log) $(grep -m1 -E '^(OK|HARNESS)' /tmp/runall-$id.log | cut -c1-100)"
done
