#!/venv/bin/python
"""Run the repo's baseline suite (guard off) and compare with BASELINE.json stable_pass."""
import json, os, subprocess, sys, tempfile
import xml.etree.ElementTree as ET
out = tempfile.mktemp(suffix=".xml")
repo = os.environ.get("VERIF_REPO", "/repo")
env = dict(os.environ); env.pop("INFOCF_VERIF", None)
subprocess.run(["/venv/bin/python", "-m", "pytest", "-ra", "-q", "-p", "no:cacheprovider", "--timeout=900",
                "--continue-on-collection-errors", f"--junitxml={out}"], cwd=repo, env=env,
               stdout=subprocess.DEVNULL, stderr=subprocess.DEVNULL)
passed = set()
for tc in ET.parse(out).getroot().iter("testcase"):
    if not any(ch.tag in ("failure", "error", "skipped") for ch in tc):
        passed.add(f"{tc.get('classname')}::{tc.get('name')}")
base = set(json.load(open("/root/.vp/BASELINE.json"))["stable_pass"])
missing = sorted(base - passed)
print(f"baseline: {len(base & passed)}/{len(base)} stable tests pass; extra passing: {sorted(passed - base)}")
for m in missing:
    print("  NOT PASSING:", m)
os.remove(out)
sys.exit(1 if missing else 0)
