#!/opt/veriftools/pyvenv/bin/python
"""Regenerate MANIFEST.json from the property modules that exist (and validate it)."""
import importlib
import json
import os
import sys

ROOT = os.path.dirname(os.path.dirname(os.path.abspath(__file__)))
sys.path.insert(0, ROOT)
BASELINE = ("cd /repo && /venv/bin/python -m pytest -ra -q -p no:cacheprovider --timeout=900 "
            "--continue-on-collection-errors")

props = [json.loads(l) for l in open(os.path.join(ROOT, "properties.jsonl"))]
checks, na = [], []
for p in props:
    pid = p["id"]
    path = os.path.join(ROOT, "vlib", "props", pid.lower() + ".py")
    if not os.path.exists(path):
        na.append({"property_id": pid, "reason": "check not built yet (work in progress; the design in DESIGN.md section 3 applies)"})
        continue
    os.environ.setdefault("INFOCF_LOGLEVEL", "ERROR")
    mod = importlib.import_module(f"vlib.props.{pid.lower()}")
    if getattr(mod, "NOT_APPLICABLE", None):
        na.append({"property_id": pid, "reason": mod.NOT_APPLICABLE})
        continue
    checks.append({
        "property_id": pid,
        "quick_cmd": f"./check {pid} --tier quick",
        "thorough_cmd": f"./check {pid} --tier thorough",
        "evidence_file": f"evidence/{pid}.json",
        "replay_cmd_template": f"./check {pid} --replay {{path}}",
        "engine": "hypothesis-runner",
        "level_claimed": {
            "category": mod.LEVEL,
            "text": getattr(mod, "LEVEL_TEXT", mod.RULE),
            "design_ref": f"DESIGN.md section 3, {pid}",
        },
        "level_note": "; ".join(getattr(mod, "ASSUMPTIONS", [])) or "CPython, Hypothesis, harness oracle",
        "technique": getattr(mod, "TECHNIQUE", "property-based testing (Hypothesis) against a world-enumeration reference"),
    })

hooks_file = os.path.join(ROOT, "hooks.json")
hooks = json.load(open(hooks_file)) if os.path.exists(hooks_file) else {}
man = {
    "version": 1,
    "setup_cmd": "./setup.sh",
    "hooks": {
        "guard": "INFOCF_VERIF",
        "enable": hooks.get("enable", "no source hooks: all interposition (virtual clock, Optimize.check, file writes) is done from the harness process; INFOCF_VERIF is not read by /repo"),
        "baseline_off_cmd": BASELINE,
        "source_commits": hooks.get("source_commits", []),
        "add_only": True,
    },
    "engines": [
        {"name": "hypothesis-runner", "path": "vlib/core.py",
         "serves_properties": [c["property_id"] for c in checks],
         "kind_free_text": "Hypothesis-driven generation sharded over 16 fresh worker processes; collect-then-minimise; fresh-interpreter confirmation of every failure; known-findings filter"},
        {"name": "reference-semantics", "path": "vlib/ref.py",
         "serves_properties": [c["property_id"] for c in checks],
         "kind_free_text": "pure-Python world-enumeration oracle for partitions, p/Z/W/lex, c-representations, ranking laws"},
    ],
    "checks": checks,
    "not_applicable": na,
    "notes": "See DESIGN.md. ./check <ID> --tier quick|thorough; VERIF_SEED and VERIF_TIER honoured; exit 0/1/2 (2 = harness error, never a VIOLATION).",
}
json.dump(man, open(os.path.join(ROOT, "MANIFEST.json"), "w"), indent=1)
import jsonschema  # noqa: E402
jsonschema.validate(man, json.load(open("/root/.vp/MANIFEST.schema.json")))
print("MANIFEST ok:", len(checks), "checks,", len(na), "not applicable")
