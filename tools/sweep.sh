#!/bin/sh
# tools/sweep.sh "<seeds>" [checks...] : run checks on /repo at several seeds with strict strata; print anything that is not OK
SEEDS="$1"; shift
CHECKS="${*:-C01 C02 C03 C04 C05 C06 C07 C08 C09 C10 C11 C12 C13 C14 C15 C16 C17 C18 C19 C20}"
cd "$(dirname "$0")/.." || exit 2
export VERIF_STRICT_STRATA=1 VERIF_EVIDENCE_DIR=/tmp/verif-sweep/evidence VERIF_REPLAY_DIR=/tmp/verif-sweep/replays
for s in $SEEDS; do for c in $CHECKS; do
  t0=$(date +%s); VERIF_SEED=$s ./check $c --tier quick > /tmp/sweep-$c-$s.log 2>&1; rc=$?; t1=$(date +%s)
  echo "seed=$s $c rc=$rc $((t1-t0))s $(grep -E '^(VIOLATION|HARNESS|NOTE)' /tmp/sweep-$c-$s.log | head -2 | cut -c1-200)"
done; done
