#!/venv/bin/python
"""Detection power of one generator family against one seeded change.

usage: VERIF_REPO=<patched worktree> tools/power.py C12 'vlib.props.c12:_search3' --n 100 [--set transforms='["reorder:specific-first"]']
Runs prop.run_case on family(seed) for seeds 0..n-1 (16 processes) and prints how many cases
produced an observation, by bucket.  Development aid only; not a registered check.
"""
import argparse
import collections
import importlib
import json
import concurrent.futures
import os
import sys
import time

sys.path.insert(0, os.path.dirname(os.path.dirname(os.path.abspath(__file__))))


def one(a):
    pid, fam, seed, sets = a
    from vlib import core
    mod = core.prop_module(pid)
    m, f = fam.split(":")
    fn = getattr(importlib.import_module(m), f)
    case = dict(fn(seed))
    for k, v in sets.items():
        case[k] = v
    case.setdefault("tseed", seed)
    case.setdefault("pseed", seed)
    case.setdefault("rot", seed)
    ctx = core.Ctx(record=False)
    t0 = time.time()
    try:
        obs = mod.run_case(case, ctx)
    except Exception as e:  # noqa: BLE001
        return seed, [f"HARNESS:{type(e).__name__}:{e}"[:120]], time.time() - t0, case.get("searched")
    return seed, sorted({o["bucket"] for o in obs}), time.time() - t0, case.get("searched")


def main():
    ap = argparse.ArgumentParser()
    ap.add_argument("pid")
    ap.add_argument("family")
    ap.add_argument("--n", type=int, default=64)
    ap.add_argument("--set", action="append", default=[])
    args = ap.parse_args()
    sets = {}
    for s in args.set:
        k, v = s.split("=", 1)
        sets[k] = json.loads(v)
    with concurrent.futures.ProcessPoolExecutor(16) as p:   # non-daemonic: cases may start processes
        rs = list(p.map(one, [(args.pid, args.family, s, sets) for s in range(args.n)]))
    hit = [r for r in rs if r[1]]
    bc = collections.Counter(b for r in rs for b in r[1])
    print(f"cases={len(rs)} detecting={len(hit)} mean_s={sum(r[2] for r in rs) / len(rs):.2f} "
          f"searched={collections.Counter(r[3] for r in rs).most_common(4)}")
    print("  detecting by kind:", dict(collections.Counter(r[3] for r in hit)))
    for b, c in bc.most_common(8):
        print(f"  {c:4d} {b}")


if __name__ == "__main__":
    main()
