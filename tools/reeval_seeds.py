#!/venv/bin/python
"""Re-evaluate every seeded change against the CURRENT checks: its own property's check plus the
checks that caught it before (so that SENSITIVITY.md describes the committed machinery)."""
import glob, json, os, subprocess, sys
ROOT = os.path.dirname(os.path.dirname(os.path.abspath(__file__)))
only = sys.argv[1:]
for p in sorted(glob.glob(os.path.join(ROOT, "seeded", "*", "meta.json"))):
    m = json.load(open(p))
    sid = m["id"]
    if only and sid not in only:
        continue
    own = m["breaks_property"]
    prev = [c for c, v in m.get("checks", {}).items() if v.get("caught") and c != own]
    checks = [own] + prev[:2]
    args = [os.path.join(ROOT, "tools", "try_seed.py"), os.path.dirname(p), "--id", sid, "--property", own,
            "--checks", ",".join(checks)]
    if "baseline_with_change" in m.get("ran", {}):
        args.append("--skip-baseline")
    # drop results of checks that are not re-run (they came from older versions of the machinery)
    m["checks"] = {}
    json.dump(m, open(p, "w"), indent=1)
    r = subprocess.run(args, capture_output=True, text=True)
    print(sid, [l for l in r.stdout.splitlines() if l.startswith(("check", "demo", "baseline"))], flush=True)
