#!/venv/bin/python
"""Sensitivity campaign: realistic single-edit mutants of /repo, each applied to a scratch
worktree (outside /repo and /verif, removed right after use); the listed checks are run
against it with VERIF_REPO and must exit 1.

usage: tools/mutants.py [--only ID[,ID]] [--jobs N] [--baseline]   (writes SENSITIVITY.md)
"""
import argparse
import json
import os
import subprocess
import sys
import time
from concurrent.futures import ThreadPoolExecutor

ROOT = os.path.dirname(os.path.dirname(os.path.abspath(__file__)))

# (id, file, old, new, [checks expected to catch], note)
M = [
    # ---- C01 p-entailment
    ("m01a", "inference/p_entailment.py", "falsified_query = Conditional(Not(query.consequence), query.antecedence, None)",
     "falsified_query = Conditional(query.consequence, query.antecedence, None)", ["C01", "C08", "C09"], "negation of the query consequent dropped"),
    ("m01b", "inference/p_entailment.py", "            return partition is False\n", "            return not partition\n", ["C01"], "'is False' -> falsy (empty partition)"),
    ("m01c", "inference/p_entailment.py", "falsified_query = Conditional(Not(query.consequence), query.antecedence, None)",
     "falsified_query = Conditional(query.antecedence, Not(query.consequence), None)", ["C01", "C09"], "consequence/antecedence swapped in the negated query"),
    ("m01d", "inference/consistency_sat.py", "                if s.solve():\n                    R.append(c)\n                else:\n                    C.append(c)\n                s.pop()\n            if R == []:\n                # No tolerated",
     "                if s.solve():\n                    R.append(c)\n                    s.pop()\n                    continue\n                else:\n                    C.append(c)\n            if R == []:\n                # No tolerated", ["C01", "C06", "C02"], "pop skipped after an untolerated test (object variant)"),
    # ---- C02 system Z
    ("m02a", "inference/system_z.py", "            if partition_index == 0:\n                return False\n            return self._rec_inference(solver, partition_index - 1, query)",
     "            if partition_index <= 1:\n                return False\n            return self._rec_inference(solver, partition_index - 1, query)", ["C02", "C08", "C16"], "recursion stops one layer early"),
    ("m02b", "inference/system_z.py", "        if not v:\n            return False\n\n        if f:", "        if not f:\n            return True\n\n        if not v:\n            return False\n\n        if f:", ["C02"], "reachability tests swapped"),
    ("m02c", "inference/system_z.py", "[solver.add_assertion(Not(c.make_A_then_not_B())) for c in part]", "[solver.add_assertion(c.make_not_A_or_B()) for c in part[:-1] or part]", ["C02", "C08", "C09"], "last conditional of a layer not asserted"),
    # ---- C03 system W
    ("m03a", "inference/system_w.py", "    return all(any(a.issubset(b) for a in A) for b in B)", "    return all(any(b.issubset(a) for a in A) for b in B)", ["C03", "C08"], "subset direction swapped (rc2)"),
    ("m03b", "inference/system_w.py", "        for xi_i in xi_i_set & xi_i_prime_set:\n            if partition_index == 0:\n                return False", "        for xi_i in xi_i_set & xi_i_prime_set:\n            if partition_index == 0:\n                return True", ["C03", "C11"], "tie at layer 0 answered True (rc2)"),
    ("m03c", "inference/system_w_z3.py", "    return all(any(a.issubset(b) for a in A) for b in B)", "    return any(all(a.issubset(b) for b in B) for a in A) or not B", ["C03", "C11"], "exists/forall swapped (z3 back-end)"),
    ("m03d", "inference/optimizer.py", "        if not is_superset:\n            filtered.append(a)", "        if not is_superset or len(a) == 1:\n            filtered.append(a)", ["C15"], "remove_supersets keeps singleton supersets"),
    # ---- C04 lex
    ("m04a", "inference/lex_inf.py", "        if min_len_v < min_len_f:\n            return True", "        if min_len_v <= min_len_f and partition_index == 0:\n            return True\n        if min_len_v < min_len_f:\n            return True", ["C04", "C11"], "tie at layer 0 counts as smaller (rc2)"),
    ("m04b", "inference/lex_inf_z3.py", "        for xi_i in [s for s in xi_i_set if len(s) == v]:\n            beats_all = True", "        for xi_i in [s for s in xi_i_set if len(s) == v][:1]:\n            beats_all = True", ["C04", "C11"], "only the first minimum-cardinality set is tried (z3)"),
    ("m04c", "inference/lex_inf.py", "        min_mcs_f = [xi for xi in mcs_f if len(xi) == min_len_f]", "        min_mcs_f = [xi for xi in mcs_f if len(xi) == min_len_f][:1]", ["C04", "C11"], "only one falsifying set compared (rc2)"),
    # ---- C05 c-inference
    ("m05a", "inference/c_inference.py", "            csp.append(GT(eta, mv - mf))", "            csp.append(GE(eta, mv - mf))", ["C05", "C17"], "GT -> GE in the base encoding"),
    ("m05b", "inference/c_inference.py", "        csp = vM + fM + [GE(mv, mf)]", "        csp = vM + fM + [GT(mv, mf)]", ["C05", "C08"], "GE -> GT in the query encoding"),
    ("m05c", "inference/c_inference.py", "                xMins_lst = optimizer.minimal_correction_subsets(\n                    wcnf, ignore=[i], deadline=deadline\n                )", "                xMins_lst = optimizer.minimal_correction_subsets(\n                    wcnf, ignore=[], deadline=deadline\n                )", ["C05", "C17"], "ignore=[i] dropped"),
    # ---- C06 consistency
    ("m06a", "inference/consistency_sat.py", "                if weakly:\n                    partition.append([])\n                if logger.isEnabledFor(logging.DEBUG):\n                    logger.debug(\n                        \"calls: %s, levels: %s, partition lengths: %s, status: consistent\",\n                        calls,\n                        levels,\n                        [len(i) for i in partition],\n                    )\n                return partition, ([len(p) for p in partition], calls, levels)\n            levels += 1\n            if logger.isEnabledFor(logging.DEBUG):\n                logger.debug(\"levels: %s\", levels)\n            s.push()\n            knowledge = toImplicit(conditionals)",
     "                partition.append([])\n                if logger.isEnabledFor(logging.DEBUG):\n                    logger.debug(\n                        \"calls: %s, levels: %s, partition lengths: %s, status: consistent\",\n                        calls,\n                        levels,\n                        [len(i) for i in partition],\n                    )\n                return partition, ([len(p) for p in partition], calls, levels)\n            levels += 1\n            if logger.isEnabledFor(logging.DEBUG):\n                logger.debug(\"levels: %s\", levels)\n            s.push()\n            knowledge = toImplicit(conditionals)", ["C06"], "empty final layer appended in strict mode too (object variant)"),
    ("m06b", "inference/consistency_diagnostics.py", "            diag[\"belief_base_consistent\"] = _last_layer_size(base_part_ext) == 0", "            diag[\"belief_base_consistent\"] = _last_layer_size(base_part_ext) <= 1", ["C06", "C16"], "== 0 -> <= 1"),
    ("m06c", "inference/consistency_diagnostics.py", "                ) > _last_layer_size(base_part_ext)", "                ) >= _last_layer_size(base_part_ext)", ["C06"], "> -> >= for infinity growth"),
    ("m06d", "inference/inference.py", "        assert cons != False, \"belief base inconsistent\"", "        assert cons != False or self.epistemic_state.get(\"weakly\", False), \"belief base inconsistent\"", ["C06"], "inconsistent bases accepted in weakly mode"),
    ("m06e", "inference/consistency_sat.py", "                    knowledge_sat = s.solve()\n                    if not knowledge_sat:\n                        return False, ([len(C)], calls, levels)\n                    partition.append(C)\n                    return partition, ([len(p) for p in partition], calls, levels)\n                else:\n                    return False, ([len(p) for p in partition], calls, levels)\n            partition.append(R)\n            conditionals = C\n            # reset the solver sothat it wont consider the currently found partition anymore\n            s.pop()\n\n\ndef set_core_minimize",
     "                    knowledge_sat = s.solve()\n                    if not knowledge_sat and len(C) > 1:\n                        return False, ([len(C)], calls, levels)\n                    partition.append(C)\n                    return partition, ([len(p) for p in partition], calls, levels)\n                else:\n                    return False, ([len(p) for p in partition], calls, levels)\n            partition.append(R)\n            conditionals = C\n            # reset the solver sothat it wont consider the currently found partition anymore\n            s.pop()\n\n\ndef set_core_minimize", ["C06"], "single never-tolerated conditional not rejected (index variant)"),
    # ---- C07 extended
    ("m07a", "inference/system_w.py", "            result = self._rec_inference(\n                wcnf, len(self.epistemic_state[\"partition\"]) - 2, deadline\n            )", "            result = self._rec_inference(\n                WCNF(), len(self.epistemic_state[\"partition\"]) - 2, deadline\n            )", ["C07", "C11"], "infinity layer hard constraints dropped (rc2 W)"),
    ("m07b", "inference/system_z.py", "            taut_solver.add_assertion(query.make_A_then_not_B())", "            taut_solver.add_assertion(query.antecedence)", ["C07"], "vacuity check uses the antecedent only"),
    ("m07c", "inference/lex_inf.py", "            if not contra_solver.solve():\n                return True\n", "            if not contra_solver.solve():\n                return False\n", ["C07", "C11"], "vacuity check inverted (lex rc2)"),
    # ---- C10 parser
    ("m10a", "parser/myVisitor.py", "        if v == \"Bottom\":\n            return Bool(False)", "        if v == \"Bottom\":\n            return Bool(True)", ["C10"], "Bottom read as True"),
    ("m10b", "parser/myVisitor.py", "        consequent = self.visit(ctx.consequent)\n        antecedent = self.visit(ctx.antecedent)\n        text", "        consequent = self.visit(ctx.antecedent)\n        antecedent = self.visit(ctx.consequent)\n        text", ["C10"], "consequent/antecedent swapped"),
    ("m10c", "parser/myVisitor.py", "                i: c for i, c in enumerate(self.visit(ctx.condition()), start=1)", "                i: c for i, c in enumerate(self.visit(ctx.condition()), start=0)", ["C10"], "keys start at 0"),
    ("m10d", "parser/myVisitor.py", "        return Not(self.visit(ctx.formula()))", "        f = self.visit(ctx.formula())\n        return f.arg(0) if f.is_not() else Not(f)", ["C10"], "double negation collapsed - harmless (equivalent): expected NOT caught"),
    ("m10e", "parser/Wrappers.py", "    tree = parser.formula()\n    _require_end_of_input(tokens)", "    tree = parser.formula()", ["C10"], "EOF check removed (reverts F06 for formulas)"),
    # ---- C11 back-end name
    ("m11a", "inference/optimizer.py", "        if not sat_solver:\n            sat_solver = \"g3\"", "        if not sat_solver or sat_solver.startswith(\"m\"):\n            sat_solver = \"g3\"", [], "engine name ignored for m* engines: behaviour-preserving, expected NOT caught"),
    ("m11b", "inference/optimizer.py", "                if not violated:\n                    xMins.append(violated)\n                    break", "                if not violated or (sat_solver == \"cd\" and model_count > 2):\n                    xMins.append(violated)\n                    break", ["C11", "C15"], "enumeration cut short for one engine"),
    # ---- C12 presentation
    ("m12a", "inference/c_inference.py", "            for i in self.epistemic_state[\"belief_base\"].conditionals\n        }", "            for i in sorted(self.epistemic_state[\"belief_base\"].conditionals)[: len(self.epistemic_state[\"belief_base\"].conditionals)]\n        }", [], "behaviour-preserving, expected NOT caught"),
    ("m12b", "inference/p_entailment.py", "        conditionals[max(conditionals, default=0) + 1] = falsified_query", "        conditionals[len(conditionals) + 1] = falsified_query", ["C12"], "query key collides with sparse keys"),
    ("m12c", "inference/system_w.py", "        ignore = [\n            item\n            for sublist in self.epistemic_state[\"partition\"]\n            if sublist != part\n            for item in sublist\n        ]", "        ignore = [\n            item\n            for sublist in self.epistemic_state[\"partition\"]\n            if sublist != part\n            for item in sublist\n            if item > 0\n        ]", ["C12"], "key 0 never ignored (rc2 W)"),
    # ---- C13 histories
    ("m13a", "inference/inference_manager.py", "            df.at[index, \"index\"] = query_key", "            df.at[index, \"index\"] = results[query][0]", ["C13"], "reverts F08"),
    ("m13b", "inference/inference.py", "                str(q): mp_return_dict[i]\n                if i in mp_return_dict", "                str(q): mp_return_dict[list(queries.keys())[0]]\n                if i in mp_return_dict", ["C13"], "parallel: every row gets the first query's result"),
    ("m13c", "inference/inference.py", "            for p, i, query in processes:\n                p.join(timeout + 10)", "            for p, i, query in processes[:-1] or processes:\n                p.join(timeout + 10)", ["C13"], "parallel: last worker not joined"),
    ("m13d", "inference/system_w.py", "        self.epistemic_state[\"v_cnf_dict\"][\"query\"] = translated_query[0]", "        self.epistemic_state[\"v_cnf_dict\"].setdefault(\"query\", translated_query[0])", ["C13", "C09", "C03"], "query CNF cached from the first query of the manager"),
    # ---- C14 budgets
    ("m14a", "inference/system_w_z3.py", "            if check != sat:\n                # the solver gave up (time limit reached): no model is available\n                raise TimeoutError", "            if check != sat:\n                return xi_i_set", ["C14"], "partial set returned when the solver gives up"),
    ("m14b", "inference/inference.py", "            except TimeoutError:\n                result_dict[str(query)] = (\n                    index,\n                    False,\n                    True,", "            except TimeoutError:\n                result_dict[str(query)] = (\n                    index,\n                    False,\n                    False,", ["C14"], "time-out not flagged (sequential)"),
    ("m14c", "inference/optimizer.py", "                if deadline and deadline.expired():\n                    raise TimeoutError", "                if deadline and deadline.expired():\n                    break", ["C14"], "partial correction sets on expiry"),
    # ---- C15 CNF / MCS
    ("m15a", "inference/tseitin_transformation.py", "        if z3.is_not(expr):\n            sign = -1", "        if z3.is_not(expr) and not z3.is_not(expr.children()[0]):\n            sign = -1", [], "double negation in a literal cannot occur after tseitin-cnf: expected NOT caught"),
    ("m15b", "inference/optimizer.py", "                    if counter == cost:\n                        return violated", "                    if counter >= cost - 1 and counter > 0:\n                        return violated", ["C15", "C03", "C05"], "early return one clause early"),
    ("m15c", "inference/optimizer.py", "                new_clause.append(hid * (-1))", "                new_clause.append(hid)", ["C15", "C03"], "blocking clause with wrong helper sign"),
    ("m15d", "inference/tseitin_transformation.py", "                    if z3.is_true(atom) != negated:", "                    if z3.is_true(atom) == negated:", ["C15", "C03"], "constant polarity swapped (inside F01 fix)"),
    # ---- C16 Z ranking
    ("m16a", "inference/preocf.py", "            return self._rec_z_rank(solver, partition_index - 1)\n        return partition_index + 1\n\n    # ------------------------------------------------------------------\n    # Public accessors", "            return self._rec_z_rank(solver, partition_index - 1)\n        return partition_index\n\n    # ------------------------------------------------------------------\n    # Public accessors", ["C16", "C18"], "rank off by one"),
    ("m16b", "inference/preocf.py", "    def rank_world(self, world: str, force_calculation: bool = False) -> int:\n        if force_calculation or self.ranks[world] is None:\n            self.ranks[world] = self.z_part2ocf(world)", "    def rank_world(self, world: str, force_calculation: bool = False) -> int:\n        if force_calculation and self.ranks[world] is not None:\n            self.ranks[world] = self.ranks[world] + 0\n        elif self.ranks[world] is None:\n            self.ranks[world] = self.z_part2ocf(world)", [], "force returns the cached value: behaviour-preserving, expected NOT caught"),
    ("m16c", "inference/preocf.py", "                antecedent = Not(phi)\n\n                # Pretty-print antecedent using project syntax", "                antecedent = phi\n\n                # Pretty-print antecedent using project syntax", ["C16"], "fact conditional not negated"),
    # ---- C17
    ("m17a", "inference/preocf.py", "            if solver.solve():\n                rank += self._impacts[idx - 1]\n        return rank\n\n    # ------------------------------------------------------------------\n    # Impact vector persistence methods", "            if solver.solve():\n                rank += self._impacts[idx - 1] if idx > 1 else self._impacts[0] * 1\n        return rank if rank < 7 else 7\n\n    # ------------------------------------------------------------------\n    # Impact vector persistence methods", ["C17"], "ranks capped at 7"),
    ("m17b", "inference/c_revision.py", "                    z3.Int(vname) < m.eval(z3.Int(vname), model_completion=True)", "                    z3.Int(vname) <= m.eval(z3.Int(vname), model_completion=True) - 2", ["C17"], "front blocking excludes too much"),
    # ---- C18
    ("m18a", "inference/preocf.py", "                if min_rank is None or rank < min_rank:\n                    min_rank = rank", "                if min_rank is None:\n                    min_rank = rank", ["C18", "C16"], "first-found instead of minimum"),
    ("m18b", "inference/preocf.py", "        return v_rank < n_rank\n\n    # vector", "        return v_rank <= n_rank\n\n    # vector", ["C18", "C16", "C17"], "< -> <= in acceptance"),
    ("m18c", "inference/preocf.py", "    return [rank_groups[rank] for rank in sorted(rank_groups.keys())]", "    return [rank_groups[rank] for rank in sorted(rank_groups.keys(), key=str)]", [], "string sort differs only for ranks >= 10: expected NOT caught with values 0-5"),
    ("m18d", "inference/preocf.py", "                    if self.signature[i] not in marginalization\n                ]\n            )", "                    if self.signature[len(world) - 1 - i] not in marginalization\n                ]\n            )", ["C18"], "marginalize deletes mirrored bit positions"),
    # ---- C19
    ("m19a", "inference/c_revision.py", "        csp.append(GT(gamma[1] - gamma[0], mv - mf))", "        csp.append(GE(gamma[1] - gamma[0], mv - mf))", ["C19"], "GT -> GE"),
    ("m19b", "inference/c_revision_model.py", "            self.world_acc[w].discard(index)\n            self.world_rej[w].discard(index)", "            self.world_acc[w].discard(index)", ["C19"], "remove_conditional leaves rejected entries"),
    ("m19c", "inference/c_revision.py", "                if bits[a_idx] == a_val:\n                    if bits[c_idx] == c_val:\n                        accepted_list.append(cast(int, cond.index))", "                if bits[a_idx] == a_val:\n                    if bits[c_idx] == c_val or (a_idx == c_idx and a_val != c_val):\n                        accepted_list.append(cast(int, cond.index))", ["C19"], "fast compilation: contradictory literal conditional accepted"),
    # ---- C20
    ("m20a", "inference/preocf.py", "        try:\n            with path.open(\"wb\") as fd:\n                pickle.dump(self, fd, protocol=protocol)\n        finally:\n            # Restore all non-picklable objects\n            for attr, value in non_picklable_backups.items():\n                setattr(self, attr, value)", "        with path.open(\"wb\") as fd:\n            pickle.dump(self, fd, protocol=protocol)\n        # Restore all non-picklable objects\n        for attr, value in non_picklable_backups.items():\n            setattr(self, attr, value)", ["C20"], "restore outside finally"),
    ("m20b", "inference/preocf.py", "        non_picklable_attrs = [\n            \"_optimizer\",\n            \"_csp\",\n        ]  # Add other non-picklable attributes as needed", "        non_picklable_attrs = [\n            \"_optimizer\",\n            \"_csp\",\n            \"_impacts\",\n        ]  # Add other non-picklable attributes as needed", ["C20"], "impacts not saved"),
    ("m20c", "inference/preocf.py", "                    json.dump(self._metadata, fd, indent=2, default=str)", "                    json.dump(json.loads(json.dumps(self._metadata, default=str), parse_float=lambda t: round(float(t), 6)), fd, indent=2)", ["C20"], "top-level float metadata rounded"),
]


def run(cmd, **kw):
    return subprocess.run(cmd, capture_output=True, text=True, **kw)


def one(m, args):
    mid, path, old, new, checks, note = m
    d = f"/tmp/infocf-mut-{mid}"
    run(["git", "-C", "/repo", "worktree", "remove", "--force", d])
    r = run(["git", "-C", "/repo", "worktree", "add", "-q", "--detach", d, "HEAD"])
    res = {"id": mid, "file": path, "note": note, "expected": checks, "results": {}}
    try:
        p = os.path.join(d, path)
        s = open(p).read()
        if s.count(old) != 1:
            res["error"] = f"pattern occurs {s.count(old)} times"
            return res
        open(p, "w").write(s.replace(old, new))
        cp = run(["/venv/bin/python", "-c", "import inference.inference_manager, inference.preocf, inference.c_revision, parser.Wrappers"],
                 cwd=d, env=dict(os.environ, PYTHONPATH=d, INFOCF_LOGLEVEL="ERROR"))
        if cp.returncode != 0:
            res["error"] = "does not import: " + cp.stderr[-300:]
            return res
        if args.baseline or args.baseline_only:
            cp = run([os.path.join(ROOT, "tools", "baseline.py")], env=dict(os.environ, VERIF_REPO=d))
            res["baseline"] = cp.stdout.strip().splitlines()[0] if cp.stdout else "?"
            res["survives_baseline"] = cp.returncode == 0
        todo = [] if args.baseline_only else (checks or args.default_checks)
        env = dict(os.environ, VERIF_REPO=d, VERIF_EVIDENCE_DIR=f"/tmp/verif-alt/{mid}/evidence",
                   VERIF_REPLAY_DIR=f"/tmp/verif-alt/{mid}/replays", VERIF_SHARDS=str(args.shards))
        for c in todo:
            t0 = time.time()
            cp = run([os.path.join(ROOT, "check"), c, "--tier", "quick"], env=env)
            buckets = [l.split("bucket=")[1].split(" detail=")[0] for l in cp.stdout.splitlines() if l.strip().startswith("bucket=")]
            res["results"][c] = {"rc": cp.returncode, "wall": round(time.time() - t0), "buckets": buckets[:4],
                                 "harness": [l for l in cp.stdout.splitlines() if l.startswith("HARNESS")][:1]}
    finally:
        run(["git", "-C", "/repo", "worktree", "remove", "--force", d])
        run(["rm", "-rf", f"/tmp/verif-alt/{mid}"])
    return res


def main():
    ap = argparse.ArgumentParser()
    ap.add_argument("--only", default="")
    ap.add_argument("--jobs", type=int, default=2)
    ap.add_argument("--shards", type=int, default=8)
    ap.add_argument("--baseline", action="store_true")
    ap.add_argument("--baseline-only", action="store_true", help="only run the repo's baseline suite on each mutant")
    ap.add_argument("--default-checks", default="")
    ap.add_argument("--skip", default="", help="comma separated mutant ids (prefixes) to skip")
    ap.add_argument("--out", default=os.path.join(ROOT, "sensitivity.json"))
    args = ap.parse_args()
    args.default_checks = [c for c in args.default_checks.split(",") if c]
    only = set(x for x in args.only.split(",") if x)
    ms = [m for m in M if not only or m[0] in only or any(m[0].startswith(o) for o in only)]
    skip = [x for x in args.skip.split(",") if x]
    ms = [m for m in ms if not any(m[0].startswith(x) for x in skip)]
    def save(r):
        old = {}
        if os.path.exists(args.out):
            old = {x["id"]: x for x in json.load(open(args.out))}
        prev = old.get(r["id"])
        if prev and not r.get("error"):
            merged = dict(prev.get("results", {}))
            merged.update(r["results"])
            r["results"] = merged
            for k in ("baseline", "survives_baseline"):
                if k not in r and k in prev:
                    r[k] = prev[k]
        old[r["id"]] = r
        json.dump(sorted(old.values(), key=lambda x: x["id"]), open(args.out, "w"), indent=1)

    with ThreadPoolExecutor(args.jobs) as ex:
        for r in ex.map(lambda m: one(m, args), ms):
            save(r)
            caught = [c for c, v in r["results"].items() if v["rc"] == 1]
            missed = [c for c, v in r["results"].items() if v["rc"] != 1]
            print(r["id"], r.get("error") or "", "baseline:", r.get("survives_baseline"), "caught:", caught, "missed:", missed, flush=True)


if __name__ == "__main__":
    main()
