#!/venv/bin/python
"""Evaluate an independently written breaking change (seeded/<id>/ or a sub-agent's SEED dir).

usage: tools/try_seed.py <dir with patch.diff + demo.py> --id C03-a --property C03 [--checks C03,C11] [--keep]
  1. scratch worktree of /repo HEAD (outside /repo and /verif), demo must exit 0 there;
  2. apply patch.diff, demo must exit 1;
  3. the unedited baseline suite must still pass with the patch;
  4. run the listed checks (quick tier) against the patched worktree via VERIF_REPO;
  5. copy patch/demo/notes into /verif/seeded/<id>/ and write meta.json; remove the worktree.
"""
import argparse
import json
import os
import shutil
import subprocess
import sys
import time

ROOT = os.path.dirname(os.path.dirname(os.path.abspath(__file__)))


def run(cmd, **kw):
    return subprocess.run(cmd, capture_output=True, text=True, **kw)


def main():
    ap = argparse.ArgumentParser()
    ap.add_argument("src")
    ap.add_argument("--id", required=True)
    ap.add_argument("--property", required=True)
    ap.add_argument("--checks", default="")
    ap.add_argument("--needs", default="")
    ap.add_argument("--skip-baseline", action="store_true")
    ap.add_argument("--tier", default="quick")
    ap.add_argument("--seed", default="1")
    args = ap.parse_args()
    d = f"/tmp/seedrun-{args.id}"
    run(["git", "-C", "/repo", "worktree", "remove", "--force", d])
    r = run(["git", "-C", "/repo", "worktree", "add", "-q", "--detach", d, "HEAD"])
    assert r.returncode == 0, r.stderr
    meta = {"id": args.id, "breaks_property": args.property, "needs_to_manifest": args.needs,
            "repo_head": run(["git", "-C", "/repo", "rev-parse", "--short", "HEAD"]).stdout.strip(), "ran": {}}
    try:
        os.makedirs(os.path.join(d, "SEED"), exist_ok=True)
        shutil.copy(os.path.join(args.src, "demo.py"), os.path.join(d, "SEED", "demo.py"))
        env = dict(os.environ, PYTHONPATH=d, INFOCF_LOGLEVEL="ERROR", PYTHONWARNINGS="ignore")
        demo = ["/venv/bin/python", "SEED/demo.py"]
        c0 = run(demo, cwd=d, env=env)
        meta["ran"]["demo_without_change"] = {"cmd": "cd <worktree> && PYTHONPATH=<worktree> /venv/bin/python SEED/demo.py", "exit": c0.returncode}
        ap_ = run(["git", "-C", d, "apply", os.path.abspath(os.path.join(args.src, "patch.diff"))])
        if ap_.returncode != 0:
            print("PATCH DOES NOT APPLY:", ap_.stderr[-400:])
            meta["ran"]["apply"] = ap_.stderr[-400:]
            return 2
        c1 = run(demo, cwd=d, env=env)
        meta["ran"]["demo_with_change"] = {"exit": c1.returncode, "tail": c1.stdout[-400:]}
        print(f"demo without change: exit {c0.returncode}; with change: exit {c1.returncode}")
        if not args.skip_baseline:
            b = run([os.path.join(ROOT, "tools", "baseline.py")], env=dict(os.environ, VERIF_REPO=d))
            meta["ran"]["baseline_with_change"] = b.stdout.strip().splitlines()[:3]
            print("baseline with change:", b.stdout.strip().splitlines()[0] if b.stdout else b.stderr[-200:])
        cenv = dict(os.environ, VERIF_REPO=d, VERIF_EVIDENCE_DIR=f"/tmp/verif-alt/{args.id}/evidence",
                    VERIF_REPLAY_DIR=f"/tmp/verif-alt/{args.id}/replays", VERIF_SEED=args.seed)
        meta["checks"] = {}
        for c in [x for x in (args.checks or args.property).split(",") if x]:
            t0 = time.time()
            cp = run([os.path.join(ROOT, "check"), c, "--tier", args.tier], env=cenv)
            buckets = [l.split("bucket=")[1].split(" detail=")[0] for l in cp.stdout.splitlines() if l.strip().startswith("bucket=")]
            meta["checks"][c] = {"exit": cp.returncode, "caught": cp.returncode == 1, "wall_s": round(time.time() - t0),
                                 "buckets": buckets[:5], "tier": args.tier, "seed": args.seed}
            print(f"check {c}: exit {cp.returncode} ({round(time.time() - t0)} s) {buckets[:3]}")
            if cp.returncode == 2:
                print(cp.stdout[-600:])
        out = os.path.join(ROOT, "seeded", args.id)
        os.makedirs(out, exist_ok=True)
        for f in ("patch.diff", "demo.py", "notes.md"):
            if os.path.exists(os.path.join(args.src, f)) and \
                    os.path.realpath(os.path.join(args.src, f)) != os.path.realpath(os.path.join(out, f)):
                shutil.copy(os.path.join(args.src, f), os.path.join(out, f))
        old = {}
        if os.path.exists(os.path.join(out, "meta.json")):
            old = json.load(open(os.path.join(out, "meta.json")))
            if "checks" in old:
                merged = dict(old["checks"])
                merged.update(meta["checks"])
                meta["checks"] = merged
            if not args.needs and old.get("needs_to_manifest"):
                meta["needs_to_manifest"] = old["needs_to_manifest"]
            for k, v in (old.get("ran") or {}).items():
                meta["ran"].setdefault(k, v)
        json.dump(meta, open(os.path.join(out, "meta.json"), "w"), indent=1)
    finally:
        run(["git", "-C", "/repo", "worktree", "remove", "--force", d])
        shutil.rmtree(f"/tmp/verif-alt/{args.id}", ignore_errors=True)
    return 0


if __name__ == "__main__":
    sys.exit(main())
