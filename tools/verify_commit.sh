#!/bin/sh
# tools/verify_commit.sh <rev>: run the baseline suite on a scratch worktree of /repo at <rev>
rev="$1"; d="/tmp/infocf-wt-$(echo "$rev" | tr -c 'A-Za-z0-9' '_')"
git -C /repo worktree add -q --detach "$d" "$rev" || exit 2
( cd "$d" && /venv/bin/python -m pytest -q -p no:cacheprovider unittests/test_preocf.py -k test_tpo -s 2>/dev/null | tail -1 )
VERIF_REPO="$d" /verif/tools/baseline.py; rc=$?
git -C /repo worktree remove --force "$d"
echo "verify_commit $rev rc=$rc"; exit $rc
