#!/opt/veriftools/pyvenv/bin/python
"""validate MANIFEST.json and every evidence/*.json against the schemas"""
import glob, json, sys, jsonschema
ok = True
man = json.load(open("MANIFEST.json"))
jsonschema.validate(man, json.load(open("/root/.vp/MANIFEST.schema.json")))
sch = json.load(open("/root/.vp/EVIDENCE.schema.json"))
for c in man["checks"]:
    f = c["evidence_file"]
    try:
        jsonschema.validate(json.load(open(f)), sch)
        print("ok", f)
    except Exception as e:
        ok = False
        print("BAD", f, str(e)[:300])
sys.exit(0 if ok else 1)
